// Conformance runner for javascript/src/index.js: the real `LucidSuggest` class, with the compiled wasm module replaced
// by a stub that (a) logs every call the class makes and (b) answers get_result_ids / get_result_titles with what the
// real glue (rust/wasm/src/lib.rs, native build, harness_glue) returned for the same scripted use.  Recorder only.
//
//   node run.mjs <index.js of the repo> <script.ndjson> <glue-trace.ndjson> <out.ndjson> <scratch dir>
import fs from 'node:fs'
import path from 'node:path'
import { pathToFileURL } from 'node:url'

const [indexJs, scriptFile, glueFile, outFile, scratch] = process.argv.slice(2)
const str = cps => String.fromCodePoint(...(cps || []))
const cpsOf = s => Array.from(s, c => c.codePointAt(0))

// the module under test, unchanged except for where the wasm promise comes from
const src = fs.readFileSync(indexJs, 'utf8')
const importLine = /^import compileWasm from [^\n]*\n/m
if (!importLine.test(src)) { console.error('index.js: wasm import line not found'); process.exit(2) }
fs.mkdirSync(scratch, { recursive: true })
const modFile = path.join(scratch, 'index_under_test.mjs')
fs.writeFileSync(modFile, src.replace(importLine, 'const compileWasm = globalThis.__lsv_wasm_promise\n'))

const lines = f => fs.readFileSync(f, 'utf8').split('\n').filter(l => l.trim() !== '').map(l => JSON.parse(l))
const script = lines(scriptFile)
const glue = new Map(lines(glueFile).map(e => [e.case, e]))
const out = fs.openSync(outFile, 'w')
let unhandled = 0
process.on('unhandledRejection', () => { unhandled += 1 })

for (const c of script) {
    const g = glue.get(c.case)
    const calls = []
    // answers of the glue, per store id (= construction ordinal of the instance, as in the glue pass)
    const idOfInst = new Map()
    for (const op of c.ops) if (op.op === 'new') idOfInst.set(op.inst, idOfInst.size + 1)
    const answers = new Map()
    for (const a of ((g && g.searches) || [])) {
        const id = idOfInst.get(a.inst)
        if (!answers.has(id)) answers.set(id, [])
        answers.get(id).push(a)
    }
    let current = new Map()          // store id -> answer of its latest run_search
    // every call as a record of uniform shape: name, store id, numeric arguments, text arguments (code points)
    const log = (name, id, nums, texts) => calls.push({ name, id, nums: nums || [], texts: (texts || []).map(cpsOf) })
    const wasm = {
        create_store:      (id)             => { log('create_store', id) },
        destroy_store:     (id)             => { log('destroy_store', id) },
        highlight_with:    (id, l, r)       => { log('highlight_with', id, [], [l, r]) },
        set_limit:         (id, limit)      => { log('set_limit', id, [limit]) },
        add_record:        (id, rid, t, rt) => { log('add_record', id, [rid, rt], [t]) },
        run_search:        (id, q)          => { log('run_search', id, [], [q]); current.set(id, (answers.get(id) || []).shift()) },
        get_result_ids:    (id)             => { log('get_result_ids', id); const a = current.get(id); return a ? a.wire_ids : [] },
        get_result_titles: (id)             => { log('get_result_titles', id); const a = current.get(id); return a ? str(a.wire_titles) : '' },
    }
    globalThis.__lsv_wasm_promise = Promise.resolve(wasm)
    const mod = await import(pathToFileURL(modFile).href + '?case=' + c.case)     // fresh module: NEXT_ID starts at 1
    const inst = new Map()
    const outs = []
    const pending = []
    const hitJson = h => ({ id: h.record.id, chunks: h.chunks.map(k => ({ text: cpsOf(k.text), highlight: !!k.highlight })), title: cpsOf(h.title) })
    for (const op of c.ops) {
        let p = null
        if (op.op === 'new') {
            inst.set(op.inst, new mod.LucidSuggest())
        } else if (op.op === 'addRecords') {
            p = inst.get(op.inst).addRecords(op.records.map(r => {
                const rec = { id: r.id, title: str(r.title) }
                if (r.rating !== undefined && r.rating !== null) rec.rating = r.rating
                return rec
            }))
        } else if (op.op === 'setLimit') {
            p = inst.get(op.inst).setLimit(op.limit)
        } else if (op.op === 'search') {
            const slot = { inst: op.inst }
            outs.push(slot)
            p = inst.get(op.inst).search(str(op.q)).then(
                hits => { slot.throws = ''; slot.hits = hits.map(hitJson) },
                err  => {
                    const m = String(err && err.message)
                    slot.throws = m.startsWith('Missing record') ? 'Missing record' : m.startsWith('Missing title') ? 'Missing title' : m
                    slot.hits = []
                })
        } else if (op.op === 'destroy') {
            inst.get(op.inst).destroy()
        }
        if (p) {
            if (c.mode === 'await' || (c.mode === 'mixed' && op.aw)) { try { await p } catch (e) { /* recorded by the slot or irrelevant */ } }
            else pending.push(p.catch(() => {}))
        }
    }
    await Promise.all(pending)
    await new Promise(r => setTimeout(r, 0))       // let destroy()'s continuation run
    fs.writeSync(out, JSON.stringify({ op: 'js', case: c.case, mode: c.mode, calls, outs, unhandled }) + '\n')
    unhandled = 0
}
fs.closeSync(out)
