//! Stand-in for the `#[wasm_bindgen]` attribute on a native target: the item is left as it is, so that the glue
//! functions of rust/wasm/src/lib.rs can be called as ordinary Rust functions by the conformance harness.
extern crate proc_macro;
use proc_macro::TokenStream;

#[proc_macro_attribute]
pub fn wasm_bindgen(_attr: TokenStream, item: TokenStream) -> TokenStream {
    item
}
