//! Stand-in for the wasm-bindgen crate (its pinned version no longer builds with the installed compiler, and the
//! sandbox has no wasm target): only the prelude's attribute, as the identity.
pub mod prelude {
    pub use wasm_bindgen_macro::wasm_bindgen;
}
