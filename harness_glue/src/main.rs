//! Conformance harness for the binding layer: the *real* glue of rust/wasm/src/lib.rs (included by path; the
//! `#[wasm_bindgen]` attribute is the identity on this native target, see stub/) driven by the call sequence that
//! javascript/src/index.js issues for a scripted use of the `LucidSuggest` class.  Recorder only: it writes what the
//! glue returned, next to what lucid_suggest_core::using_results holds; every judgement is made by TLC (TV_Binding).
//!
//!   lsv-glue <script.ndjson> <trace.ndjson>      one case per input line, one event per output line
#[allow(dead_code)]
#[path = "/repo/rust/wasm/src/lib.rs"]
mod glue;

use lucid_suggest_core as core;
use serde_json::{json, Value};
use std::io::{BufRead, Write};

fn cps(s: &str) -> Vec<u32> {
    s.chars().map(|c| c as u32).collect()
}

fn string_of(v: &Value) -> String {
    v.as_array().map(|a| a.iter().filter_map(|x| x.as_u64()).filter_map(|x| std::char::from_u32(x as u32)).collect()).unwrap_or_default()
}

fn run_case(case: &Value) -> Value {
    let mut next_id: usize = 1; // javascript/src/index.js: `var NEXT_ID = 1`, module scope
    let mut ids: std::collections::HashMap<u64, usize> = std::collections::HashMap::new();
    let mut searches = Vec::new();
    for op in case["ops"].as_array().cloned().unwrap_or_default() {
        let inst = op["inst"].as_u64().unwrap_or(0);
        match op["op"].as_str().unwrap_or("") {
            "new" => {
                ids.insert(inst, next_id);
                glue::create_store(next_id);
                glue::highlight_with(next_id, "{{", "}}");
                next_id += 1;
            }
            "addRecords" => {
                for r in op["records"].as_array().cloned().unwrap_or_default() {
                    glue::add_record(ids[&inst], r["id"].as_u64().unwrap_or(0) as usize, &string_of(&r["title"]), r["rating"].as_u64().unwrap_or(0) as usize);
                }
            }
            "setLimit" => glue::set_limit(ids[&inst], op["limit"].as_u64().unwrap_or(0) as usize),
            "search" => {
                let id = ids[&inst];
                glue::run_search(id, &string_of(&op["q"]));
                let results: Vec<Value> = core::using_results(id, |rs| rs.iter().map(|r| json!({"id": r.id, "title": cps(&r.title)})).collect());
                let wire_ids = glue::get_result_ids(id);
                let wire_titles = glue::get_result_titles(id);
                searches.push(json!({"inst": inst, "q": op["q"], "results": results, "wire_ids": wire_ids, "wire_titles": cps(&wire_titles)}));
            }
            "destroy" => glue::destroy_store(ids[&inst]),
            _ => {}
        }
    }
    json!({"op": "glue", "case": case["case"], "searches": searches})
}

fn main() {
    let args: Vec<String> = std::env::args().collect();
    if args.len() != 3 {
        eprintln!("usage: lsv-glue <script.ndjson> <trace.ndjson>");
        std::process::exit(2);
    }
    let input = std::io::BufReader::new(std::fs::File::open(&args[1]).expect("open script"));
    let mut out = std::io::BufWriter::new(std::fs::File::create(&args[2]).expect("create trace"));
    for line in input.lines() {
        let line = line.expect("read script");
        if line.trim().is_empty() {
            continue;
        }
        let case: Value = serde_json::from_str(&line).expect("script line is JSON");
        let c2 = case.clone();
        // the registry of lib.rs is thread-local: a thread of its own is a process that has done nothing yet
        let res = std::thread::Builder::new().stack_size(16 << 20).spawn(move || run_case(&c2)).expect("spawn").join();
        let ev = match res {
            Ok(v) => v,
            Err(e) => {
                let msg = e.downcast_ref::<String>().cloned().or_else(|| e.downcast_ref::<&str>().map(|s| s.to_string())).unwrap_or_default();
                json!({"op": "glue", "case": case["case"], "panic": msg})
            }
        };
        writeln!(out, "{}", ev).unwrap();
    }
}
