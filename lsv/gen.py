"""Script generators: what is run on the real code.  A script is a list of cases; a case is a list of ops
(JSON objects, see harness/src/main.rs) starting with a `case` header.  Generators only choose inputs that lie
inside the quantifier of the property they serve; whether a case really is in the domain, and whether the
property holds on what the code answered, is decided by TLC on the recorded trace (spec/Props*.tla)."""
import json, os, random
from .common import VERIF, cps, text

LANGS = ["none", "de", "en", "es", "fr", "pt", "ru"]
SENT_L, SENT_R = [0xE000], [0xE001]
LANGTAB = json.load(open(os.path.join(VERIF, "langs.json")))
WORDS = json.load(open(os.path.join(VERIF, "data", "words.json")))
CORPUS = json.load(open(os.path.join(VERIF, "data", "corpus_en.json")))

ADVERSARIAL = [
    "", " ", "\u0000", "a\u0000b", "-", "--,;", "$", "a$b", "it's", "wi-fi router", "t-shirt", "a-a", "e-e", "ab-c",
    " nbsp title", "tab\tseparated\nlines", "Straße", "STRASSE", "ẞ groß", "ǅ title-case",
    "é decomposed", "́ lone mark", "ä̈ double mark", "İstanbul", "ﬁne ligature",
    "① circled", "½ half", "x​y zero width", "中文 文字", "\U0001f600 emoji",
    "‮right-to-left", "a" * 30, "ab " * 12, "1234 5678", "3d", "Αθήνα",
    "…ellipsis…", "—dash—", "‼⁇", "(paren) [bracket] {brace}", "q", "qq", "Q q Q",
    "à la carte", "и мир", "õ ã", "ß", "ßß", "œuf", "ŒUF",
    "퟿", "﻿bom", "\u0000\u0000", "a\u0000", "\u0000a",
    "５", "٣", "- ٣٣ -", "room ٣", "x² y³", "Ⅷ", "５００ml",
    " ".join("w%d" % i for i in range(70)), "x" * 300, "ab" * 40 + " " + "ab" * 40, "-".join("abcdefghij"[i % 10] for i in range(90)),
    "".join(ch + "ß" for ch in (list("abcdefghijklmnopqrstuvwxyz") + [chr(c) for c in range(0x3B1, 0x3C9) if c != 0x3C2] + [chr(c) for c in range(0x430, 0x450)] + [chr(c) for c in range(0x561, 0x587)])[:90]),
    "".join(ch + "œ" for ch in (list("abcdefghijklmnopqrstuvwxyz") + [chr(c) for c in range(0x3B1, 0x3C9) if c != 0x3C2] + [chr(c) for c in range(0x430, 0x450)] + [chr(c) for c in range(0x561, 0x587)])[:90]),
]


# titles with unusual but legitimate shapes; they join every language's pool: words carrying symbols at their edges,
# words made of few distinct letters, digits, one-letter words, words beyond the initial buffer capacity of 20
SPECIAL_TITLES = [
    "C++", "#1", "100%", "\"Heroes\"", "C++ C#", "$5 100%", "'n' \"roll\"", "C++ and C#", "#1 best seller", "100% cotton", "\"Heroes\" of might", "$5 off 100%", "it's a 'quoted' word", "+plus+ -minus-",
    "Mississippi to Tennessee", "assesses 10000 bananas", "aaaa bbbb", "abababab cdcdcd", "1111 2222 3333", "xxxxx", "zzz zz z",
    "a b c d", "x y", "q", "counterrevolutionaries unite", "donaudampfschifffahrtsgesellschaft", "pneumonoultramicroscopicsilicovolcanoconiosis",
    " leading space", "\ttabbed title", "trailing space ", "  two  spaces  ", "\u00a0nbsp first",
    "ftp server", "html css xml", "bbq grill", "tv dvd hdmi", "xl xxl", "rhythm myths", "psst shh",
    "Rock'n'roll vinyl", "Men's leather belt", "50's diner", "a+b=c", "AC/DC tribute", "o'clock", "l'été d'avant", "x_y_z",
    "t-shirt xl", "wi-fi router", "e-mail", "micro biology", "night light", "power-bank usb", "3d printer 4k", "usb2 hub", "no.5 chanel",
    "500ml bottle 12v 1kg", "Größe XL", "Süße Grüße", "Élégant cœur", "Bäckerstraße 5",
    "daddy puppy mummy", "sense tests sensors", "bell bela pikk", "radar level civic",
    "!!!", "-- --", "???", "",          # titles without any word: they take a position in the store and in the index all the same
    "1\u00bdin pipe", "5mm\u00b2x50m cable", "a\u0663\u0664\u0665b", "\uff30\uff33\uff15pro",     # non-ASCII numerals inside words
    "\u039a\u039f\u03a3\u039c\u039f\u03a3 travel", "\u039f\u0394\u03a5\u03a3\u03a3\u0395\u0399\u0391", "\u0130stanbul tea",      # capitals whose lower case depends on context
    "0000000000000417 part", "hahahahahahahaha", "nananananana batman",                                     # long words of few distinct grams
    "macOS Big Sur on iPad", "eBay Angebote auf iOS", "3D TV 4K", "iPhone case tvOS",        # capitals only inside words
    "usb\tcharger cable", "line\nbreak title", "next\u0085line here", "a\u001fb unit",      # control characters between words
    "node.js guide", "AT&T sim", "Wi\u2011Fi router", "hand\u2013made soap", "3.5g modem", "a/b test", "rock&roll", "co_op mode",
    "ps 4 console", "mp-3 player", "ab c", "a bc def", "electroencephalographic otorhinolaryngological kit", "Fried rice", "Dairy farm",
]


def natural_lang(t):
    """the language a special title most likely belongs to (by its letters)"""
    if any("\u0400" <= ch <= "\u04ff" for ch in t):
        return "ru"
    for chars, lg in (("ßäöüÄÖÜẞ", "de"), ("ñ¡¿", "es"), ("ãõ", "pt"), ("éèêëàâîïôûùçœæÉÈÀÇŒ", "fr")):
        if any(ch in chars for ch in t):
            return lg
    return "en"


def lang_titles(lang):
    if lang in ("en", "none"):
        return None  # corpus
    return WORDS["titles"][lang]


def upper_title(t, rnd):
    """ALL CAPS as a shop would write it; the sharp s either stays or becomes its capital form"""
    keep = rnd.random() < 0.5
    return "".join(("\u1e9e" if not keep else ch) if ch == "\u00df" else ch.upper() for ch in t)


def pool_titles(lang, rnd, n):
    """n titles typical for the language (corpus for en/none, the language list otherwise)"""
    if lang in ("en", "none"):
        return [rnd.choice(CORPUS)[1] for _ in range(n)]
    ts = WORDS["titles"][lang]
    return [rnd.choice(ts) for _ in range(n)]


def script_letters(lang):
    """lower-case letters of the language's script that its normalisation leaves unchanged"""
    if lang == "none":
        return [chr(c) for c in range(97, 123)]
    tab = LANGTAB[lang]
    red = {tuple(a) for a, b in tab["reduce"]}
    out = []
    for c, k in tab["classes"]:
        ch = chr(c)
        if (c,) in red or ch.lower() != ch or (lang == "ru" and c < 0x400):
            continue
        out.append(ch)
    return out


def disjoint_alphabets(lang, rnd):
    letters = script_letters(lang)
    rnd.shuffle(letters)
    k = len(letters) // 3
    return letters[:k], letters[k:2 * k], letters[2 * k:]


class Case:
    def __init__(self, prop, kind, **kw):
        self.ops = [dict(op="case", prop=prop, kind=kind, **kw)]
        self.sid = 0

    def new_store(self, lang, limit=None, markers=(SENT_L, SENT_R)):
        self.sid += 1
        self.ops.append(dict(op="new", sid=self.sid, lang=lang))
        if markers is not None:
            self.ops.append(dict(op="markers", sid=self.sid, l=markers[0], r=markers[1]))
        if limit is not None:
            self.ops.append(dict(op="limit", sid=self.sid, limit=limit))
        return self.sid

    def add(self, sid, rid, title, rating):
        self.ops.append(dict(op="add", sid=sid, id=rid, title=cps(title) if isinstance(title, str) else title, rating=rating))

    def search(self, sid, q, want=("qtok",), **kw):
        op = dict(op="search", sid=sid, q=cps(q) if isinstance(q, str) else q, want=list(want))
        op.update(kw)
        self.ops.append(op)

    def op(self, **kw):
        self.ops.append(kw)


def via_registry(c, foreign=None):
    """the same case asked through the top-level API (create_store / add_record / set_limit / set_markers / run_search)
    with a stand-alone store driven in lock-step as the specification's view of the records: the properties speak of
    what a user of the library gets, and lib.rs is the way most users reach a store"""
    d = Case(c.ops[0]["prop"], c.ops[0]["kind"] + "+api", **{k: v for k, v in c.ops[0].items() if k not in ("op", "prop", "kind")})
    for op in c.ops[1:]:
        o = op.get("op")
        if o in ("new", "add", "limit", "markers", "clear"):
            twin = dict(op)
            twin["sid"] = 1000 + op["sid"]
            if o == "new":
                d.op(op="r_create", id=op["sid"], lang=op["lang"])
                if foreign and foreign != op["lang"] and not any(x.get("op") == "r_create" and x.get("id") == 99 for x in d.ops):
                    # another id with another language lives on the same thread and is asked every input first
                    d.op(op="r_create", id=99, lang=foreign)
                    d.op(op="r_add", id=99, rid=1, title=cps("running shoes größe straße"), rating=1)
            elif o == "add":
                d.op(op="r_add", id=op["sid"], rid=op["id"], title=op["title"], rating=op["rating"])
            elif o == "limit":
                d.op(op="r_limit", id=op["sid"], limit=op["limit"])
            elif o == "markers":
                d.op(op="r_markers", id=op["sid"], l=op["l"], r=op["r"])
            else:
                d.op(op="r_clear", id=op["sid"])
            d.ops.append(twin)
        elif o == "search":
            keep = [w for w in op.get("want", []) if w in ("singles", "unlimited")]
            d.search(1000 + op["sid"], op["q"], tag="sa%d" % op["sid"], want=["qtok"] + keep, rep=1)
            if any(x.get("op") == "r_create" and x.get("id") == 99 for x in d.ops):
                d.op(op="r_search", id=99, q=op["q"])
            d.op(op="r_search", id=op["sid"], q=op["q"], **({"expect": op["expect"]} if "expect" in op else {}))
        else:
            return None          # a case with steps the top-level API does not have
    return d


def relimit_probe(c, sid, q, rnd):
    """the same query was asked a moment ago under a much smaller limit (the limit is a public field that callers change
    between searches); the limit the case was built with is put back before the judged search"""
    cur = 10
    for o in c.ops:
        if o.get("op") == "limit" and o.get("sid") == sid:
            cur = o["limit"]
    c.op(op="limit", sid=sid, limit=rnd.choice([0, 1]))
    c.search(sid, q, rep=1)
    c.op(op="limit", sid=sid, limit=cur)


def distinct_ratings(rnd, n, hi=1000):
    return rnd.sample(range(0, max(hi, n + 1)), n)


# ------------------------------------------------------------------------------------------------
# tokenisation pre-pass: the generators enumerate words, prefixes and edits from the *public tokeniser's*
# output for each title (the properties are stated over it), obtained by a first replay.
def tok_script(pairs):
    """pairs: iterable of (lang, title) -> ops"""
    ops = [dict(op="case", prop="pre", kind="tok")]
    for lang, title in pairs:
        ops.append(dict(op="tok", lang=lang, text=cps(title), kind="r"))
    return ops


def toks_from_trace(events):
    out = {}
    for e in events:
        if e.get("op") == "tok" and "tok" in e:
            out[(e["lang"], text(e["text"]))] = e["tok"]
    return out


def words_of(tok):
    return [tok["chars"][w["s"]:w["e"]] for w in tok["words"]]


# ------------------------------------------------------------------------------------------------
def small_store_case(prop, kind, lang, rnd, titles, target_title, extra=None):
    """a store with no more records than its limit, holding target_title among others; returns (case, sid, rid)"""
    k = rnd.randint(0, 5)
    others = [rnd.choice(titles) for _ in range(k)]
    if rnd.random() < 0.12:
        # a store of many copies of the same title (more records than the index has distinct grams)
        others = [target_title] * rnd.randint(7, 14)
    crowd = prop != "C05" and rnd.random() < 0.1
    if crowd:
        # a crowd: more records than the default limit, all sharing the target's first and last words (so every one of
        # them matches what finds the target), under a limit raised to the size of the store
        ws = [w for w in target_title.split(" ") if w]
        fill = [w for t in titles[:40] for w in t.split(" ") if w] or ["x"]
        others = [" ".join([ws[0], rnd.choice(fill)] + ([ws[-1]] if len(ws) > 1 else [])) for _ in range(rnd.randint(10, 22))] if ws else others
    recs = others[:]
    pos = rnd.randint(0, len(recs))
    recs.insert(pos, target_title)
    n = len(recs)
    limit = rnd.choice([n, n, n + 1, 10, 10, n + 5]) if not crowd else rnd.choice([n, n + 1, n + 5])
    if limit < n:
        limit = n
    c = Case(prop, kind, lang=lang)
    sid = c.new_store(lang, limit=limit)
    if rnd.random() < 0.15:
        # the store held another catalogue before and was cleared (a smaller, an equal or a larger one)
        for j in range(rnd.choice([1, n, n + 3])):
            c.add(sid, 800 + j, rnd.choice(titles), rnd.randint(0, 1000))
        if rnd.random() < 0.7:
            c.search(sid, rnd.choice(titles).split(" ")[0][:3] or "a", rep=1)      # ... and it was in use
        c.op(op="clear", sid=sid)
    ratings = distinct_ratings(rnd, n) if rnd.random() < 0.7 else [rnd.randint(0, 3) for _ in range(n)]
    if crowd and rnd.random() < 0.6:
        ratings[pos] = 0                        # the target is the least popular of the crowd
    for i, t in enumerate(recs):
        c.add(sid, 100 + i, t, ratings[i])
    return c, sid, 100 + pos


def gen_prefix_cases(lang, rnd, titles, toks, ncases, prop="C03", targets=None):
    """C03 (and the exact-prefix clause of C05 when the title has one word): every prefix of every word; `targets`: the
    titles to take in turn instead of drawing them"""
    cases = []
    for k_ in range(ncases if targets is None else len(targets)):
        t = rnd.choice(titles) if targets is None else targets[k_]
        tok = toks.get((lang, t))
        if not tok or not tok["words"]:
            continue
        c, sid, rid = small_store_case(prop, "prefix", lang, rnd, titles, t)
        if rnd.random() < 0.35:
            # the user was already typing before the record arrived: the same prefixes are asked for first on the
            # store without the record, then the record is added (still no more records than the limit)
            add_op = [op for op in c.ops if op.get("op") == "add" and op.get("id") == rid][0]
            c.ops.remove(add_op)
            for w in words_of(tok):
                for n in range(1, len(w) + 1):
                    c.search(sid, w[:n])
            # ... and the very keystroke typed last is typed again right after the record arrived
            wl = words_of(tok)
            wi0 = rnd.randrange(len(wl))
            p0 = wl[wi0][:rnd.randint(1, len(wl[wi0]))]
            c.search(sid, p0, rep=1)
            add_op["id"] = rid = 900
            c.ops.append(add_op)
            c.search(sid, p0, expect=dict(prop="C03", kind="prefix", rid=rid, widx=wi0 + 1))
        probe = rnd.random() < 0.2
        for wi, w in enumerate(words_of(tok)):
            for n in range(1, len(w) + 1):
                q = w[:n]
                if probe and rnd.random() < 0.3:
                    relimit_probe(c, sid, q, rnd)
                c.search(sid, q, expect=dict(prop="C03", kind="prefix", rid=rid, widx=wi + 1))
            # the same prefixes typed as in the original title (source spelling, e.g. upper case, accents)
            ws = tok["words"][wi]
            src = [x for x in tok["source"][ws["s"]:ws["e"]]]
            for n in range(1, len(src) + 1):
                if src[n - 1] == 0:
                    continue
                q = [x for x in src[:n] if x != 0]
                c.search(sid, q, expect=dict(prop="C03", kind="prefix", rid=rid, widx=wi + 1))
        cases.append(c)
    return cases


def edits_of(w, letters, rnd, per_pos=2):
    """single edits of the word w (list of code points): substitution, insertion, deletion, adjacent swap"""
    out = []
    L = [ord(x) for x in letters]
    for i in range(len(w)):
        for ch in rnd.sample(L, min(per_pos, len(L))):
            if ch != w[i]:
                out.append(("sub", w[:i] + [ch] + w[i + 1:]))
        out.append(("del", w[:i] + w[i + 1:]))
        if i + 1 < len(w) and w[i] != w[i + 1]:
            out.append(("swap", w[:i] + [w[i + 1], w[i]] + w[i + 2:]))
    for i in range(len(w) + 1):
        for ch in rnd.sample(L, min(per_pos, len(L))):
            out.append(("ins", w[:i] + [ch] + w[i:]))
    return out


def three_letter_words(lang, rnd, n):
    """the lower bound of C04's domain: words of five to seven letters with exactly three distinct letters, in every
    arrangement class (two of them single, one single, none single)"""
    letters = script_letters(lang)
    out = []
    for _b in range(n):
        a, b, c3 = rnd.sample(letters, 3)
        n5 = rnd.randint(5, 7)
        pat = rnd.choice([[a] * (n5 - 2) + [b, c3], [a] * (n5 - 3) + [b, b, c3], [a, a, b, b] + [c3] * (n5 - 4)])
        if rnd.random() < 0.5:
            mid = pat[1:-1]
            rnd.shuffle(mid)
            pat = [pat[0]] + mid + [pat[-1]]
        else:
            pat = rnd.sample(pat, len(pat))
        out.append("".join(pat))
    return out


FOREIGN_SCRIPT_TITLES = ["Україна сьогодні", "Недјеља код куће", "Ελλαδα ταξιδι", "Հայաստան", "საქართველო ღვინო", "ישראלי חדשות",
                         "қазақстан жолы", "Беларусь кўп", "ქუთაისი", "Љубљана", "Μακεδονια", "ўзбекистон"]


def run_words(lang, rnd, n):
    """words of five to seven letters in which one letter stands three or four times in a row ("zzz", brand names, sounds,
    Roman numerals), the run at the start, in the middle or at the end, with at least three distinct letters in all"""
    letters = script_letters(lang)
    out = []
    for k in range(n):
        r = rnd.choice(letters)
        run = r * rnd.choice([3, 3, 4])
        rest = rnd.sample([ch for ch in letters if ch != r], rnd.randint(max(2, 5 - len(run)), 7 - len(run)))
        cut = [0, len(rest) // 2, len(rest)][k % 3]
        out.append("".join(rest[:cut]) + run + "".join(rest[cut:]))
    return out


def gen_edit_cases(lang, rnd, titles, toks, ncases, per_pos=2, extra=()):
    """C04"""
    letters = script_letters(lang)
    cases = []
    tries = 0
    boundary = list(extra)
    while len(cases) < ncases + len(boundary) and tries < (ncases + len(boundary)) * 20:
        tries += 1
        t = rnd.choice(titles) if len(cases) >= len(boundary) else boundary[len(cases)]
        tok = toks.get((lang, t))
        if not tok:
            if len(cases) < len(boundary):
                boundary[len(cases)] = rnd.choice(titles)
            continue
        ws = [(i, w) for i, w in enumerate(words_of(tok)) if len(w) >= 5 and len(set(w)) >= 3 and all(chr(x).isalpha() for x in w)]
        if not ws:
            if len(cases) < len(boundary):
                boundary[len(cases)] = rnd.choice(titles)
            continue
        c, sid, rid = small_store_case("C04", "edit", lang, rnd, titles, t)
        edits = [(wi, kind, v) for wi, w in ws for kind, v in edits_of(w, letters, rnd, per_pos)]
        if rnd.random() < 0.35 and edits:
            # the misspelling is a product of its own: records whose titles contain some of the typed spellings verbatim
            # (they overlap the query far better than the target does), the limit raised with the store
            k = min(len(edits), rnd.randint(1, 4))
            if rnd.random() < 0.6:
                # preferably the spellings that leave the target the smallest share of the query's grams: that is where a
                # competitor's overlap dwarfs the target's
                gr = lambda w: {tuple(w[:1]), tuple(w[:2])} | {tuple(w[i:i + 3]) for i in range(len(w) - 2)}
                wmap = dict(ws)
                order = sorted(edits, key=lambda e: (len(gr(e[2]) & gr(wmap[e[0]])) / float(len(gr(e[2]))), rnd.random()))
                chosen = order[:k]
            else:
                chosen = rnd.sample(edits, k)
            for j, (wi, kind, v) in enumerate(chosen):
                c.add(sid, 700 + j, text(v) + " " + rnd.choice(titles).split(" ")[0], rnd.randint(0, 1000))
            c.op(op="limit", sid=sid, limit=sum(1 for o in c.ops if o.get("op") == "add") + rnd.choice([0, 1, 5]))
        probe = rnd.random() < 0.25
        for wi, kind, v in edits:
            if probe and rnd.random() < 0.3:
                relimit_probe(c, sid, v, rnd)
            c.search(sid, v, expect=dict(prop="C04", kind=kind, rid=rid, widx=wi + 1))
        cases.append(c)
    return cases


def compound_echo_titles(rnd, titles, n):
    """titles in which one word is the run-together spelling of two other words of the same title (plus, sometimes, a
    suffix), at any position: "pop cornpopper corn", "sunflower sun flower" - the matcher may glue two query words onto it"""
    ws = sorted({w.lower() for t in titles[:80] for w in t.split(" ") if 2 <= len(w) <= 6 and w.isalpha()})
    out = []
    while ws and len(ws) >= 2 and len(out) < n:
        a, b = rnd.sample(ws, 2)
        glued = rnd.choice([a + b, b + a]) + rnd.choice(["", "", "s", "per", rnd.choice(ws)[:2]])
        parts = [a, b, glued]
        rnd.shuffle(parts)
        out.append(" ".join(parts))
    return out


def gen_whole_pair_cases(lang, rnd, titles, toks, ncases, extra=(), targets=None):
    """C13"""
    cases = []
    titles = list(titles) + list(extra)
    for k_ in range(ncases if targets is None else len(targets)):
        t = (rnd.choice(titles) if not extra or k_ % 8 else rnd.choice(list(extra))) if targets is None else targets[k_]
        tok = toks.get((lang, t))
        if not tok or not tok["words"]:
            continue
        c, sid, rid = small_store_case("C13", "whole", lang, rnd, titles, t)
        if rnd.random() < 0.3:
            # the title was searched for just before the record arrived
            add_op = [op for op in c.ops if op.get("op") == "add" and op.get("id") == rid][0]
            c.ops.remove(add_op)
            c.search(sid, t, rep=1)
            add_op["id"] = rid = 900
            c.ops.append(add_op)
        if rnd.random() < 0.15:
            relimit_probe(c, sid, cps(t), rnd)
        c.search(sid, t, expect=dict(prop="C13", kind="whole", rid=rid))
        ws = words_of(tok)
        if len(ws) >= 2:
            a, b = ws[0], ws[-1]
            c.search(sid, a + [32] + b, expect=dict(prop="C13", kind="pair", rid=rid))
            c.search(sid, b + [32] + a, expect=dict(prop="C13", kind="pair", rid=rid))
            # as spelled in the title
            sa = [x for x in tok["source"][tok["words"][0]["s"]:tok["words"][0]["e"]] if x]
            sb = [x for x in tok["source"][tok["words"][-1]["s"]:tok["words"][-1]["e"]] if x]
            c.search(sid, sb + [32] + sa, expect=dict(prop="C13", kind="pair", rid=rid))
        cases.append(c)
    return cases


def gen_split_join_cases(lang, rnd, titles, toks, ncases, targets=None):
    """C14"""
    cases = []
    for k_ in range(ncases if targets is None else len(targets)):
        t = rnd.choice(titles) if targets is None else targets[k_]
        tok = toks.get((lang, t))
        if not tok or not tok["words"]:
            continue
        c, sid, rid = small_store_case("C14", "split", lang, rnd, titles, t)
        ws = words_of(tok)
        for wi, w in enumerate(ws):
            if len(w) >= 3:
                for k in range(1, len(w)):
                    sep = rnd.choice([[32], [45], [32], [44], [46], [9]])
                    if rnd.random() < 0.25:
                        c.search(sid, w[:k] + sep, rep=1)          # the user typed the first half and the separator a moment ago
                    c.search(sid, w[:k] + sep + w[k:], expect=dict(prop="C14", kind="split", rid=rid, widx=wi + 1))
        # the word as spelled in the title, one separator typed inside it (also next to a symbol inside the word)
        for wi, w in enumerate(ws):
            wsh = tok["words"][wi]
            src = [x for x in tok["source"][wsh["s"]:wsh["e"]] if x]
            if len(w) >= 3 and any(not chr(x).isalnum() for x in src):
                for k in range(1, len(src)):
                    c.search(sid, src[:k] + [rnd.choice([32, 32, 45, 44])] + src[k:], expect=dict(prop="C14", kind="split_raw", rid=rid, widx=wi + 1))
        for wi in range(len(ws) - 1):
            if tok["words"][wi + 1]["s"] - tok["words"][wi]["e"] == 1 and len(ws[wi]) + len(ws[wi + 1]) >= 3:
                c.search(sid, ws[wi] + ws[wi + 1], expect=dict(prop="C14", kind="joined", rid=rid, widx=wi + 1))
        cases.append(c)
    return cases


def gen_exact_prefix_cases(lang, rnd, titles, toks, ncases):
    """C05, last clause: one-word titles and their prefixes"""
    cases = []
    words = []
    for t in titles:
        tok = toks.get((lang, t))
        if tok:
            for i, w in enumerate(tok["words"]):
                src = [x for x in tok["source"][w["s"]:w["e"]] if x]
                words.append(text(src))
    words = sorted(set(words))
    for _ in range(ncases):
        if not words:
            break
        t = rnd.choice(words)
        tok = toks.get((lang, t))
        if not tok or len(tok["words"]) != 1:
            continue
        c, sid, rid = small_store_case("C05", "exactprefix", lang, rnd, titles, t)
        w = words_of(tok)[0]
        for n in range(1, len(w) + 1):
            c.search(sid, w[:n], expect=dict(prop="C05", kind="exactprefix", rid=rid))
        cases.append(c)
        # ... and in a case of its own (a thread that has never seen the plain prefixes): the user pasted the word, went on
        # past it (a blank, a comma, another word) and deletes; each prefix is asked right after its completed form
        # ("mailbo " then "mailbo")
        c2 = Case("C05", "exactprefix", lang=lang)
        c2.ops = [dict(o) for o in c.ops if o.get("op") != "search"]
        c2.sid = c.sid
        for n in range(len(w), 0, -1):
            c2.search(sid, w[:n] + cps(rnd.choice([" ", " ", ", ", " zq"])))
            c2.search(sid, w[:n], expect=dict(prop="C05", kind="exactprefix", rid=rid))
        cases.append(c2)
    return cases, words


def gen_span_cases(lang, rnd, titles, toks, ncases):
    """C05: queries whose match may be shorter than the record word (finished proper prefixes of long words,
    inflected forms) and queries that are near misses of a title word's beginning (first letters swapped or
    replaced), in stores within and beyond the limit"""
    cases = []
    letters = script_letters(lang)
    for _ in range(ncases):
        n = rnd.randint(1, 6)
        recs = [rnd.choice(titles) for _ in range(n)]
        c = Case("C05", "spans", lang=lang)
        sid = c.new_store(lang, limit=rnd.choice([10, 10, n, 1, 2]))
        adds_at = len(c.ops)
        for i, t in enumerate(recs):
            c.add(sid, 100 + i, t, rnd.randint(0, 100))
        qs = []
        for t in recs:
            tok = toks.get((lang, t))
            for w in (words_of(tok) if tok else []):
                w = text(w)
                if len(w) >= 12:
                    i1 = rnd.randint(2, len(w) - 6)
                    i2 = rnd.randint(i1 + 2, len(w) - 2)
                    qs.append(w[:i1] + w[i1 + 1:i2] + w[i2 + 1:])            # two letters missing
                    qs.append(w[:i1] + w[i1 + 1:i2] + w[i2 + 1:] + " ")
                if len(w) >= 6:
                    for cut in (1, 2, 3):
                        qs.append(w[:len(w) - cut] + rnd.choice([" ", ",", "!"]))
                    qs.append(w[:len(w) - 2] + rnd.choice(letters) + " ")
                if len(w) >= 3:
                    qs.append(w[1] + w[0] + w[2:rnd.randint(3, min(5, len(w)))])
                    qs.append(rnd.choice(letters) + w[1:rnd.randint(3, min(5, len(w)))])
                    qs.append(w[0] + rnd.choice(letters) + w[2:3])
        rnd.shuffle(qs)
        if qs and rnd.random() < 0.5:
            # the user was already typing while the catalogue was still empty (the same near misses, asked before the first
            # record arrives), and once more when half of it is there
            early = [dict(op="search", sid=sid, q=cps(q), want=["qtok"], rep=1) for q in qs[:4]]
            half = adds_at + (len(recs) + 1) // 2
            c.ops[half:half] = [dict(o) for o in early[:2]]
            c.ops[adds_at:adds_at] = early
        for q in qs[:24]:
            c.search(sid, q)
        cases.append(c)
    return cases


def random_query(lang, rnd, titles, toks):
    """a query related (or not) to the titles: prefix, typo, several words, noise"""
    t = rnd.choice(titles)
    tok = toks.get((lang, t))
    ws = words_of(tok) if tok else []
    r = rnd.random()
    if not ws or r < 0.08:
        return rnd.choice(["", " ", "zzzz", "qx", "-", "\u0000", "12", "a"])
    w = rnd.choice(ws)
    if r < 0.35:
        return text(w[:rnd.randint(1, len(w))])
    if r < 0.42:
        es = edits_of(w, script_letters(lang), rnd, 1)
        return text(rnd.choice(es)[1]) if es else text(w)
    if r < 0.5:
        # an extra letter typed in front, or the first letter missing
        return rnd.choice(script_letters(lang)) + text(w) if rnd.random() < 0.6 else text(w[1:]) or text(w)
    if r < 0.7:
        k = rnd.randint(1, min(3, len(ws)))
        sel = rnd.sample(ws, k)
        return " ".join(text(x) for x in sel)
    if r < 0.8:
        return t
    if r < 0.9:
        w2 = rnd.choice(ws)
        return text(w) + " " + text(w2[:rnd.randint(1, len(w2))])
    return text(w).upper() + rnd.choice(["", " ", "-", "!"])


def gen_store_relations(prop, lang, rnd, titles, toks, ncases, big=False):
    """C06 / C07 (and, through the generic predicates, C02 C05 C09): stores with pairwise distinct ratings, every
    limit 0..n+2, queries around the titles; the harness adds singleton / unlimited / pair / permuted stores"""
    cases = []
    for _ in range(ncases):
        n = rnd.randint(1, 7) if not big else rnd.randint(12, 30)
        if big:
            # many records sharing words, so that more than 10*limit records match
            base = rnd.choice(titles)
            tok = toks.get((lang, base))
            ws = words_of(tok) if tok else []
            w = text(rnd.choice(ws)) if ws else "metal"
            recs = [w + " " + rnd.choice(titles) if rnd.random() < 0.8 else rnd.choice(titles) for _ in range(n)]
        elif rnd.random() < 0.25:
            # a catalogue over two or three words only (more records than the whole index has distinct grams)
            voc = []
            for t in rnd.sample(titles, min(len(titles), 3)):
                voc += [x for x in t.split(" ") if x][:1]
            voc = voc[:rnd.randint(1, 3)] or ["lamp"]
            n = rnd.randint(6, 12)
            recs = [" ".join(rnd.sample(voc, rnd.randint(1, len(voc)))) for _ in range(n)]
        else:
            recs = [rnd.choice(titles) for _ in range(n)]
        twice = None
        multi = [t for t in recs if sum(1 for x in t.split() if len(x) >= 6 and x.isalnum()) >= 2]
        if multi and not big and rnd.random() < 0.35:
            # the same product listed a second and third time with its words in another order
            twice = rnd.choice(multi)
            for _r in range(rnd.randint(1, 2)):
                ws_ = twice.split()
                rnd.shuffle(ws_)
                recs.insert(rnd.randint(0, len(recs)), " ".join(ws_))
            n = len(recs)
        c = Case(prop, "relations", lang=lang)
        sid = c.new_store(lang)
        if rnd.random() < 0.2:
            # the store held another catalogue before (fewer, as many or more records), was searched, and was cleared
            for j in range(rnd.choice([1, n, n + 3])):
                c.add(sid, 800 + j, rnd.choice(titles), rnd.randint(0, 1000))
            c.search(sid, rnd.choice(titles).split(" ")[0][:3] or "a", rep=1)
            c.op(op="clear", sid=sid)
        rt = distinct_ratings(rnd, n, hi=2 ** 31 - 1 if rnd.random() < 0.2 else 1000)
        for i, t in enumerate(recs):
            c.add(sid, 100 + i, t, rt[i])
            if i == n // 2 and rnd.random() < 0.5:
                c.search(sid, "")              # the list of top-rated records was asked for while the store was filling
        qs = [random_query(lang, rnd, recs, toks) for _ in range(3)] + ([""] if rnd.random() < 0.5 else [])
        # a short complete word of one record followed by less than half of a long word of another record: the second
        # record matches only through the half-typed word (the filter rejects it) yet may score more characters
        shorts = sorted({x for t in recs for x in t.split() if 1 <= len(x) <= 3 and x.isalnum()})
        longs = sorted({x for t in recs for x in t.split() if len(x) >= 7 and x.isalnum()})
        if shorts and longs:
            lw = rnd.choice(longs)
            qs.append(rnd.choice(shorts) + " " + lw[:max(2, len(lw) // 2 - 1)])
            # several half-typed long words, each finished by a blank (they match nothing as whole words, yet their records
            # share many grams with the query), and one short word that is a real hit sharing few grams
            halves = [x[:max(3, len(x) // 2)] for x in rnd.sample(longs, min(len(longs), rnd.randint(2, 3)))]
            qs.append(" ".join(halves) + " " + rnd.choice(shorts))
        if twice and shorts:
            # the long words of the product listed several times, each half-typed and finished, then a short word of
            # another record: many strong candidates that are no hits, one weak candidate that is
            lw2 = [x for x in twice.split() if len(x) >= 6 and x.isalnum()]
            qs.append(" ".join(x[:max(3, len(x) // 2)] for x in lw2) + " " + rnd.choice(shorts))
            qs.append(" ".join(x[:4] for x in lw2[:3]) + " " + rnd.choice(shorts))
        if big:
            rare = [x for t in recs for x in t.split() if x.lower() != w.lower() and len(x) >= 3]
            qs = [w, w[:3]] + qs[:1] + ([w + " " + rnd.choice(rare), rnd.choice(rare) + " " + w] if rare else [])
        limits = [None] + (list(range(0, n + 3)) if not big else [1, 2, 3])     # None: the limit the store was built under
        for lim in limits:
            if lim is not None:
                c.op(op="limit", sid=sid, limit=lim)
            for q in qs:
                want = ["qtok", "singles", "unlimited"]
                kw = {}
                if prop == "C07":
                    want = ["qtok", "pairs"]
                    kw["max_pairs"] = 6
                    perms = []
                    for _p in range(2):
                        o = list(range(n))
                        rnd.shuffle(o)
                        perms.append(o)
                    perms.append(list(reversed(range(n))))
                    kw["perms"] = perms
                c.search(sid, q, want=want, **kw)
        cases.append(c)
    return cases


def gen_histories(prop, lang, rnd, titles, toks, ncases, length=14, adversarial=False):
    """C10 / C12 / C01: random histories over add, clear, limit, markers, search; every search is also put to a
    freshly built store"""
    cases = []
    seps = ["", " ", "-,", "\u0000", "  ", "...", "\t", "\u00a0", "!?", "\u0301", " \u0308 - ", "'\u0303' ...", "$ + $"]
    for case_no in range(ncases):
        c = Case(prop, "history", lang=lang)
        sid = c.new_store(lang, markers=(SENT_L, SENT_R) if rnd.random() < 0.7 else None)
        held = []
        nid = 1
        # a second store (same or another language) lives on the same thread, holds other records and is asked the same inputs
        # right after the first (scratch state and anything remembered per thread is shared between stores)
        sid_b = None
        if rnd.random() < 0.3:
            sid_b = c.new_store(lang if rnd.random() < 0.4 else rnd.choice(LANGS), markers=(SENT_L, SENT_R))   # often another language
            for j in range(rnd.randint(1, 4)):
                c.add(sid_b, 500 + j, rnd.choice(titles), rnd.randint(0, 1000))
        # three regimes: default limit; a small limit that the store soon exceeds; many records sharing a word
        # under a limit of 1-2 (more than 10 x limit candidates, so the index cap and the chunked selection matter)
        regime = case_no % 3
        if prop == "C05" and case_no % 3 == 0:
            regime = 2
        small_ratings = prop == "C12" or regime == 1 or rnd.random() < 0.3
        shared = None
        if regime >= 1:
            c.op(op="limit", sid=sid, limit=rnd.choice([1, 2, 3] if regime == 1 else [1, 1, 2]))
        if regime == 2:
            tok0 = toks.get((lang, rnd.choice(titles)))
            ws0 = words_of(tok0) if tok0 else []
            shared = text(rnd.choice(ws0)) if ws0 else "metal"
            for _k in range(rnd.randint(11, 24)):
                t = shared + " " + rnd.choice(titles)
                c.add(sid, nid, t, rnd.randint(0, 3) if small_ratings else rnd.randint(0, 2 ** 31 - 1))
                held.append((t, nid))
                nid += 1
        for _step in range(length):
            r = rnd.random()
            if r < 0.32 or not held:
                t = rnd.choice(ADVERSARIAL) if adversarial and rnd.random() < 0.5 else rnd.choice(titles)
                if shared and rnd.random() < 0.7:
                    t = shared + " " + t
                if prop == "C12" and held and rnd.random() < 0.3:
                    t = rnd.choice(held)[0]  # duplicate title
                if prop == "C12" and rnd.random() < 0.15:
                    t = rnd.choice(["", "???", "-- --", "$", "\u0000", "!"])      # a title without any word
                rating = rnd.randint(0, 3) if small_ratings else rnd.randint(0, 2 ** 31 - 1)
                w0 = (t.split() or [""])[0]
                typing = len(w0) >= 3 and rnd.random() < 0.3
                if typing:
                    # the user is typing the new title's first word while the record arrives: one more letter per search
                    k0 = rnd.randint(1, len(w0) - 2)
                    c.search(sid, w0[:k0], want=["qtok", "fresh"])
                c.add(sid, nid, t, rating)
                held.append((t, nid))
                nid += 1
                if typing:
                    c.search(sid, w0[:k0 + 1], want=["qtok", "fresh"])
                    c.search(sid, w0[:k0 + 2], want=["qtok", "fresh"])
            elif r < (0.42 if prop == "C05" else 0.37):
                c.op(op="clear", sid=sid)
                gone = [h[0] for h in held][-6:]
                first = [h[0] for h in held][:8]
                held = []
                shortw = sorted({w for t in titles[:60] for w in t.split(" ") if 3 <= len(w) <= 4 and w.isalpha() and len(set(w.lower())) == len(w)})
                if rnd.random() < (0.6 if prop == "C05" else 0.25) and len(shortw) >= 3:
                    # an interim catalogue of short words, cleared again at once and re-imported respelled: with words of
                    # three or four letters the respelled title shares no gram at all with the original
                    first = rnd.sample(shortw, rnd.randint(2, min(6, len(shortw))))
                    for t0 in first:
                        c.add(sid, nid, t0, rnd.randint(0, 1000))
                        nid += 1
                    c.op(op="clear", sid=sid)
                if rnd.random() < 0.4 and first:
                    # the catalogue is re-imported with its titles respelled (the first two letters of every word swapped):
                    # position by position a near-miss of what used to be there, sharing no word start with it
                    gone = first
                    for t0 in first:
                        t = " ".join(w[1:2] + w[0:1] + w[2:] for w in t0.split(" "))
                        c.add(sid, nid, t, rnd.randint(0, 3) if small_ratings else rnd.randint(0, 2 ** 31 - 1))
                        held.append((t, nid))
                        nid += 1
                else:
                    # a smaller catalogue arrives, and the user still asks for what used to be there
                    for _k in range(rnd.randint(1, 2)):
                        t = rnd.choice(titles)
                        c.add(sid, nid, t, rnd.randint(0, 3) if small_ratings else rnd.randint(0, 2 ** 31 - 1))
                        held.append((t, nid))
                        nid += 1
                for t in gone[:3]:
                    ws_ = t.split()
                    if ws_:
                        c.search(sid, rnd.choice(ws_), want=["qtok", "fresh"], repeat=2)
            elif r < 0.5:
                lim = rnd.choice([0, 1, 1, 2, 2, 3, len(held), len(held) + 1, len(held) + 2, 10, 10, 65536 if adversarial else 20])
                c.op(op="limit", sid=sid, limit=lim)
            elif r < 0.56:
                l, rr = rnd.choice([("[", "]"), ("", ""), ("<b>", "</b>"), ("{{", "}}"), ("", ""), ("a", "b"), ("*", "")])
                c.op(op="markers", sid=sid, l=cps(l), r=cps(rr))
            else:
                if prop == "C12" or rnd.random() < 0.35:
                    q = rnd.choice(seps)
                elif adversarial and rnd.random() < 0.4:
                    q = rnd.choice(ADVERSARIAL)
                elif shared and prop == "C05" and rnd.random() < 0.5:
                    q = rnd.choice([shared[1:2] + shared[0:1] + shared[2:3], shared[1:2] + shared[0:1] + shared[2:4],
                                    shared[1:4], rnd.choice(script_letters(lang)) + shared[1:3]])
                elif shared and rnd.random() < 0.6:
                    q = rnd.choice([shared, shared[:2], shared[:3], shared + " ",
                                    shared[1:2] + shared[0:1] + shared[2:3], shared[1:2] + shared[0:1] + shared[2:],
                                    rnd.choice(script_letters(lang)) + shared[1:4]])
                else:
                    q = random_query(lang, rnd, [h[0] for h in held], toks)
                c.search(sid, q, want=["qtok", "fresh"], repeat=2)
                if sid_b is not None and rnd.random() < 0.6:
                    c.search(sid_b, q, want=["qtok", "fresh"])
        cases.append(c)
    return cases


def gen_symbol_query_cases(prop, lang, rnd, titles):
    """C12 (C09): every non-alphanumeric character of the Latin-1 supplement and of ASCII as a query of its own, padded
    and doubled - typewriter symbols that look like letters of a table (degree sign / ordinal indicator) included"""
    c = Case(prop, "symbol-queries", lang=lang)
    sid = c.new_store(lang)
    recs = rnd.sample(titles, min(len(titles), 5)) + ["o livro da selva", "forno 200 \u00b0C", "a 1\u00aa vez"]
    rt = distinct_ratings(rnd, len(recs))
    for i, t in enumerate(recs):
        c.add(sid, i + 1, t, rt[i])
    c.op(op="limit", sid=sid, limit=rnd.choice([2, 3, 10]))
    syms = [chr(x) for x in list(range(0x21, 0x30)) + list(range(0x3A, 0x41)) + list(range(0x5B, 0x61)) + list(range(0x7B, 0x7F)) + list(range(0xA1, 0xC0)) + [0xD7, 0xF7]
            if not chr(x).isalnum()]
    for ch in syms:
        c.search(sid, rnd.choice([ch, " " + ch + " ", ch + ch, "-" + ch + "-"]), want=["qtok", "fresh"])
    return [c]


def gen_marker_cases(lang, rnd, titles, toks, ncases):
    """C02 / C09: searches with sentinel markers plus the same search with other marker pairs"""
    cases = []
    marker_pool = [("", ""), ("[", "]"), ("<em>", "</em>"), ("{{", "}}"), ("*", "*"), ("", "|"), ("⁣", "⁣"),
                   ("\u0000<", ">\u0000"), ("<\u0000b>", "</b>")]
    for _ in range(ncases):
        n = rnd.randint(1, 6)
        recs = [rnd.choice(titles) if rnd.random() < 0.8 else rnd.choice(ADVERSARIAL) for _ in range(n)]
        recs = [t for t in recs if chr(0xE000) not in t and chr(0xE001) not in t]
        # some titles are stored with some of their accented letters decomposed
        decomp = {b[0]: a for a, b in LANGTAB[lang]["compose"]}
        for i, t in enumerate(recs):
            if decomp and rnd.random() < 0.5:
                pr = rnd.choice([0.3, 0.6, 1.0])
                recs[i] = "".join(text(decomp[ord(ch)]) if ord(ch) in decomp and rnd.random() < pr else ch for ch in t)
        if not recs:
            continue
        c = Case("C02", "markers", lang=lang)
        sid = c.new_store(lang)
        for i, t in enumerate(recs):
            c.add(sid, 100 + i, t, rnd.randint(0, 1000))
        for _q in range(5):
            q = random_query(lang, rnd, recs, toks)
            alts = [dict(l=cps(a), r=cps(b)) for a, b in rnd.sample(marker_pool, 2)]
            # markers that also occur in the title
            t = rnd.choice(recs)
            if t:
                k = rnd.randint(0, len(t) - 1)
                piece = t[k:k + rnd.randint(1, 2)].replace("\u0000", "")
                alts.append(dict(l=cps(piece), r=cps(piece[::-1])))
            if rnd.random() < 0.3:
                # the same query was answered under other markers just before
                c.op(op="markers", sid=sid, l=cps("["), r=cps("]"))
                c.search(sid, q)
                c.op(op="markers", sid=sid, l=SENT_L, r=SENT_R)
            if rnd.random() < 0.15:
                q = rnd.choice(["５", "٣", "- ٣٣ -", "x²", "Ⅷ"])
            c.search(sid, q, alt=alts)
        cases.append(c)
    # markers that belong to some syntax (HTML, ANSI, Markdown, format strings, regex replacement) next to titles holding the
    # characters that syntax treats specially: the title text must come back as stored whatever the markers look like
    syntax_titles = ["Tom & Jerry <3 cats>", "a<b>c & d</b>", "50% \"off\" 'now' \\ sale", "R&D {{dept}} $1 %s {0}", "fish&chips&amp;more",
                     "x < y > z & w", "<b>bold</b> title", "café & crème <em>brûlée</em>", "a*b**c_d__e `f`", "\x1b[1mbright\x1b[0m lights"]
    syntax_markers = [("<b>", "</b>"), ("<em class=\"hl\">", "</em>"), ("<span>", "</span>"), ("&lt;", "&gt;"), ("<", ">"), ("\x1b[1m", "\x1b[0m"),
                      ("**", "**"), ("`", "`"), ("%s", "%s"), ("{0}", "{1}"), ("$1", "$2"), ("\\(", "\\)"), ("<mark>", "</mark>"), ("&", ";")]
    c = Case("C02", "markers", lang=lang)
    sid = c.new_store(lang)
    for i, t in enumerate(syntax_titles):
        c.add(sid, 300 + i, t, rnd.randint(0, 1000))
    alts = [dict(l=cps(a), r=cps(b)) for a, b in syntax_markers]
    for q in ("", "b", "tom jer", "x y", "cafe creme", "a b c", "bold title", "fish chips", "r d"):
        c.search(sid, q, alt=alts)
    cases.append(c)
    return cases


def gen_joined_boundary_cases(lang, rnd, titles, toks, ncases):
    """C01: arithmetic boundaries named by the specification's obligations - joined matches with one-letter halves
    and every split of the typo budget, gap widths 1-2, expanding reductions, limit 0 and 2^16, odd markers"""
    cases = []
    seps = ["-", " ", "- ", "  ", "'", ".", "\u0000"]
    expanding = {"de": ["ß", "ẞ"], "fr": ["œ", "æ", "Œ"]}.get(lang, [])
    for _ in range(ncases):
        c = Case("C01", "boundary", lang=lang)
        sid = c.new_store(lang, limit=rnd.choice([0, 1, 10, 65536]),
                          markers=rnd.choice([(SENT_L, SENT_R), ([], []), (cps("<<<"), cps(">>>")), (cps("a"), cps("a"))]))
        qs = []
        rid = 1
        for _k in range(rnd.randint(1, 4)):
            t = rnd.choice(titles)
            tok = toks.get((lang, t))
            ws = [w for w in words_of(tok)] if tok else []
            ws = [w for w in ws if len(w) >= 2]
            if not ws:
                continue
            w = text(rnd.choice(ws))
            if expanding and rnd.random() < 0.3:
                k = rnd.randint(0, len(w))
                w = w[:k] + rnd.choice(expanding) + w[k:]
            for k in sorted(set([1, len(w) - 1, rnd.randint(1, len(w) - 1)])):
                sep = rnd.choice(seps)
                c.add(sid, rid, w[:k] + sep + w[k:], rnd.choice([0, 1, 2 ** 31 - 1]))
                rid += 1
            c.add(sid, rid, w, rnd.randint(0, 5))
            rid += 1
            qs.append(w)
            qs.append(w[:1] + " " + w[1:])
            qs.append(w[:-1] + "-" + w[-1:])
            es = edits_of(cps(w), script_letters(lang), rnd, 1)
            qs += [text(e[1]) for e in rnd.sample(es, min(4, len(es)))]
            qs.append(w + w)
            qs.append(w[:1])
        for q in qs:
            c.search(sid, q, want=["qtok"])
        for lim in (0, 1, 65536):
            c.op(op="limit", sid=sid, limit=lim)
            for q in qs[:3] + [""]:
                c.search(sid, q, want=["qtok"])
        cases.append(c)
    return cases


def rand_word(rnd, alphabet, lo, hi):
    n = rnd.randint(lo, hi)
    return "".join(rnd.choice(alphabet) for _ in range(n))


def gen_ranking_cases(lang, rnd, ncases):
    """C08: the documented priorities for words over mutually disjoint alphabets, every assignment of ratings"""
    cases = []
    fwords = [text(w["w"]) for w in LANGTAB[lang]["function_words"]]
    RMAX = 2 ** 31 - 1
    for _ in range(ncases):
        A1, A2, A3 = disjoint_alphabets(lang, rnd)
        if min(len(A1), len(A2), len(A3)) < 3:
            continue
        u, v, x = rand_word(rnd, A1, 5, 9), rand_word(rnd, A2, 5, 9), rand_word(rnd, A3, 3, 8)
        if len(set(u)) < 3 or len(set(v)) < 3:
            continue
        typo = text(rnd.choice([e for e in edits_of(cps(u), A1, rnd, 1)])[1])
        longer = u + rand_word(rnd, A1, 1, 3)
        scen = [
            ("exact_vs_typo", u, typo, [u]),
            ("both_vs_one", u + " " + v, rnd.choice([u, v, u + " " + x, x + " " + v]), [u + " " + v]),
            ("short_vs_long", u, longer, [u[:k] for k in range(1, len(u) + 1)]),
            ("word_order", u + " " + v + " " + x, u + " " + x + " " + v, [u + " " + v]),
            ("position", u + " " + x, x + " " + u, [u]),
        ]
        for name, ta, tb, qs in scen:
            for ra, rb in [(0, RMAX), (RMAX, 0), (rnd.randint(0, 1000), rnd.randint(0, 1000)), (5, 5)]:
                for order in (0, 1):
                    c = Case("C08", name, lang=lang)
                    sid = c.new_store(lang)
                    recs = [(1, ta, ra), (2, tb, rb)]
                    if order:
                        recs.reverse()
                    for rid, t, r in recs:
                        c.add(sid, rid, t, r)
                    for q in qs:
                        c.search(sid, q, expect=dict(prop="C08", scenario=name, a=1, b=2, u=cps(u), v=cps(v), x=cps(x)))
                    cases.append(c)
        # equal titles: rating decides; equal rating: the shorter title first
        for order in (0, 1):
            c = Case("C08", "rating", lang=lang)
            sid = c.new_store(lang)
            t = rnd.choice([u, u + " " + x])
            hi = rnd.randint(1, RMAX)
            recs = [(1, t, hi), (2, t, hi - 1 if rnd.random() < 0.5 else rnd.randint(0, hi - 1))]
            if order:
                recs.reverse()
            for rid, tt, r in recs:
                c.add(sid, rid, tt, r)
            for q in (u, u[:3]):
                c.search(sid, q, expect=dict(prop="C08", scenario="rating", a=1, b=2, u=cps(u), v=cps(v), x=cps(x)))
            cases.append(c)
            c = Case("C08", "length", lang=lang)
            sid = c.new_store(lang)
            r = rnd.randint(0, RMAX)
            recs = [(1, u, r), (2, u + " " + x, r)]
            if order:
                recs.reverse()
            for rid, tt, rr in recs:
                c.add(sid, rid, tt, rr)
            c.search(sid, u, expect=dict(prop="C08", scenario="length", a=1, b=2, u=cps(u), v=cps(v), x=cps(x)))
            cases.append(c)
        # function words
        for f in rnd.sample(fwords, min(3, len(fwords))):
            if " " in f:
                continue
            letters = [ch for ch in script_letters(lang) if ch not in f]
            content = f + rand_word(rnd, letters, 2, 5)
            other = rand_word(rnd, letters, 4, 7)
            for tb0 in (f + " " + other, other + " " + f, f):        # the last: a title that is the function word and nothing else
                for ra, rb in [(0, RMAX), (RMAX, 0), (7, 7)]:
                    for order in (0, 1):
                        c = Case("C08", "function", lang=lang)
                        sid = c.new_store(lang)
                        # titles as shops write them: lower case, Capitalised or ALL CAPS (the title still contains f itself)
                        style = rnd.choice([0, 0, 1, 2])
                        tb = tb0 if style == 0 else (" ".join(w[:1].upper() + w[1:] for w in tb0.split(" ")) if style == 1 else upper_title(tb0, rnd))
                        recs = [(1, content if style != 2 else rnd.choice([content, upper_title(content, rnd)]), ra), (2, tb, rb)]
                        if order:
                            recs.reverse()
                        for rid, tt, rr in recs:
                            c.add(sid, rid, tt, rr)
                        c.search(sid, f, expect=dict(prop="C08", scenario="function", a=1, b=2, u=cps(u), v=cps(v), x=cps(x)))
                        cases.append(c)
    # every function word of the language's table once (the table is part of the specification, Langs.tla): the title
    # containing it carries the far higher rating
    A1, A2, A3 = disjoint_alphabets(lang, rnd)
    if min(len(A1), len(A2), len(A3)) >= 3:
        u, v, x = rand_word(rnd, A1, 5, 9), rand_word(rnd, A2, 5, 9), rand_word(rnd, A3, 3, 8)
        for k, f in enumerate(fwords):
            if " " in f:
                continue
            letters = [ch for ch in script_letters(lang) if ch not in f]
            content = f + rand_word(rnd, letters, 2, 4) if k % 4 else f + rand_word(rnd, letters, 17, 24)   # every fourth: a very long content word
            other = rand_word(rnd, letters, 4, 6)
            c = Case("C08", "function-table", lang=lang)
            sid = c.new_store(lang)
            recs = [(1, content, 0), (2, f + " " + other if k % 2 else other + " " + f, RMAX)]
            if k % 3 == 0:
                recs.reverse()
            for rid, tt, rr in recs:
                c.add(sid, rid, tt, rr)
            c.search(sid, f, expect=dict(prop="C08", scenario="function", a=1, b=2, u=cps(u), v=cps(v), x=cps(x)))
            cases.append(c)
            # the same word with a title made of function words only: f alone, or f next to another function word
            g = fwords[(k + 1) % len(fwords)]
            only = f if (k % 3 or " " in g) else (f + " " + g if k % 2 else g + " " + f)
            c = Case("C08", "function-table", lang=lang)
            sid = c.new_store(lang)
            recs = [(1, f + rand_word(rnd, letters, 2, 4), 0), (2, only, RMAX)]
            if k % 2:
                recs.reverse()
            for rid, tt, rr in recs:
                c.add(sid, rid, tt, rr)
            c.search(sid, f, expect=dict(prop="C08", scenario="function", a=1, b=2, u=cps(u), v=cps(v), x=cps(x)))
            cases.append(c)
    return cases


def _variant(lang, base, rnd, p=0.4):
    """random per-position rewriting of the base query: other case, decomposed, folded"""
    tab = LANGTAB[lang]
    decomp = {b[0]: a for a, b in tab["compose"]}
    fold = {a[0]: b for a, b in tab["reduce"]}
    ops, out = [], []
    for c in base:
        ch = chr(c)
        choices = ["k"]
        oc = ch.swapcase()
        if len(oc) == 1 and oc != ch and oc.swapcase() == ch:
            choices.append("c")
        if c in decomp:
            choices.append("d")
        if c in fold:
            choices.append("f")
        op = rnd.choice(choices[1:]) if len(choices) > 1 and rnd.random() < p else "k"
        ops.append(op)
        out += {"k": [c], "c": [ord(oc)] if op == "c" else [c], "d": decomp.get(c, [c]), "f": fold.get(c, [c])}[op]
    return ops, out


def gen_variant_cases(lang, rnd, titles, toks, ncases):
    """C11: a base query with precomposed letters and its variants; the same store with decomposed titles"""
    tab = LANGTAB[lang]
    decomp = {b[0]: a for a, b in tab["compose"]}
    marks = {a[1] for a, b in tab["compose"]}
    cases = []
    accented = [t for t in titles if (set(cps(t)) & set(decomp)) and not (set(cps(t)) & marks)]
    for _ in range(ncases):
        n = rnd.randint(1, 6)
        recs = [rnd.choice(titles) for _ in range(n)]
        if accented:
            recs.append(rnd.choice(accented))       # every store holds a title with a letter the language can decompose
        recs = [t for t in recs if not (set(cps(t)) & marks)]
        if not recs:
            continue
        c = Case("C11", "variants", lang=lang)
        sid = c.new_store(lang)
        sid2 = c.new_store(lang)
        rt = [rnd.randint(0, 1000) for _ in recs]
        for i, t in enumerate(recs):
            c.add(sid, 100 + i, t, rt[i])
        for i, t in enumerate(recs):
            d = []
            for x in cps(t):
                d += decomp.get(x, [x])
            c.add(sid2, 100 + i, d, rt[i])
        c.search(sid, [], tag="base_empty")
        for pre in ([32], [45], [32, 32], [46, 32], [9], [44]):
            c.search(sid, pre, expect=dict(prop="C11", kind="variant", tag="base_empty", base=[], ops=[], prefix=pre))
        for qi in range(4):
            # the base query is spelled like the titles (upper case, accents), cut somewhere
            t = rnd.choice(recs)
            if qi < 2 and accented and recs[-1] in accented:
                # the queries that are typed on: around a decomposable letter of a title
                t = recs[-1]
            ws = t.split()
            if t is recs[-1] and qi < 2 and accented:
                aw = [i for i, w in enumerate(ws) if set(cps(w)) & set(decomp)]
                if aw:
                    ws = ws[max(0, aw[0] - 1):aw[0] + 2]
            if not ws:
                continue
            k = rnd.randint(1, min(3, len(ws)))
            start = rnd.randint(0, len(ws) - k)
            base = " ".join(ws[start:start + k])
            if rnd.random() < 0.5:
                base = base[:rnd.randint(1, len(base))]
            if rnd.random() < 0.3:
                base = base.upper() if len(base.upper()) == len(base) else base
            r0 = rnd.random()
            if r0 < 0.2:
                # a title word typed as two words (the matcher joins them again) ...
                bw = base.split(" ")
                k = rnd.randrange(len(bw))
                if len(bw[k]) >= 3:
                    i = rnd.randrange(1, len(bw[k]))
                    bw[k] = bw[k][:i] + " " + bw[k][i:]
                    base = " ".join(bw)
            elif r0 < 0.3 and " " in base:
                # ... or two title words typed as one
                i = base.index(" ")
                base = base[:i] + base[i + 1:]
            if rnd.random() < 0.5:
                # a mistyped base query: the answer then depends on the cost (class) of single characters
                bw = base.split(" ")
                k = rnd.randrange(len(bw))
                if 3 <= len(bw[k]) <= 7:
                    letters = script_letters(lang)
                    vowels = [ch for ch in letters if ch in "aeiouyаеиоуыэюя"] or letters
                    i = rnd.randrange(1, len(bw[k]))
                    rep = rnd.choice(vowels if rnd.random() < 0.7 else letters)
                    rep = rep.upper() if bw[k][i].isupper() and len(rep.upper()) == 1 else rep
                    bw[k] = bw[k][:i] + rep + bw[k][i + 1:]
                    base = " ".join(bw)
            b = cps(base)
            if set(b) & marks:
                continue
            tag = "base%d" % qi
            c.search(sid, b, tag=tag)
            c.search(sid2, b, expect=dict(prop="C11", kind="decomposed", tag=tag))
            for _v in range(4):
                typed_on = qi < 2 and _v == 0
                ops, q = _variant(lang, b, rnd, p=1.0 if typed_on else rnd.choice([0.2, 0.5, 1.0]))
                prefix = cps(rnd.choice(["", "", " ", "-", "  ", ". ", "\t"]))
                if typed_on:
                    # the variant is typed code point by code point (a search per keystroke, the way an autocomplete box calls
                    # the library): what the earlier keystrokes leave behind must not change the answer to the last one
                    full = prefix + q
                    for j in range(1, len(full)):
                        c.search(sid, full[:j], rep=1)
                c.search(sid, prefix + q, expect=dict(prop="C11", kind="variant", tag=tag, base=b, ops=ops, prefix=prefix))
        cases.append(c)
    # long queries (a pasted title of a dozen words): variants of such a query are longer than the query itself - decomposed
    # letters are two code points, folds may expand, separators are put in front - and must still be answered alike
    pool = [t for t in titles if not (set(cps(t)) & marks) and t.strip()]
    for _ in range(2 if pool else 0):
        long_t = " ".join(rnd.sample(pool, min(9, len(pool))))[:120].rstrip()
        c = Case("C11", "variants", lang=lang)
        sid = c.new_store(lang)
        c.add(sid, 1, long_t, 5)
        for i, t in enumerate(rnd.sample(pool, min(4, len(pool)))):
            c.add(sid, 10 + i, t, rnd.randint(0, 1000))
        for qi, cut in enumerate([len(long_t)] + [rnd.randint(56, 70) for _k in range(3)] + [rnd.randint(30, 120)]):
            b = cps(long_t[:cut].rstrip())
            if not b or set(b) & marks:
                continue
            tag = "long%d" % qi
            c.search(sid, b, tag=tag)
            for _v in range(3):
                ops, q = _variant(lang, b, rnd, p=rnd.choice([0.5, 1.0, 1.0]))
                prefix = cps(rnd.choice(["", " ", "- ", " . , ", "\t\t"]))
                c.search(sid, prefix + q, expect=dict(prop="C11", kind="variant", tag=tag, base=b, ops=ops, prefix=prefix))
        cases.append(c)
    return cases


# ------------------------------------------------------------------------------------------------ components
# "з" (U+0437) and "7" (U+0037) agree in their low byte, "t"/"4" and "s"/"3" in their low six bits: look-alikes for
# code that keys tables by a truncated code point
MODEL_SYMS = [("a", "V"), ("t", "C"), ("7", "N"), ("з", "A"), ("o", "V"), ("n", "C")]


def all_words(nsym, maxlen):
    out = [[]]
    layer = [[]]
    for _ in range(maxlen):
        layer = [w + [k] for w in layer for k in range(nsym)]
        out += layer
    return out


def dl_op(inst, w1, w2, classes_of, cells_all=200, sample=0, phase=0, any_classes=False):
    c1 = ["A" if any_classes else classes_of(ch) for ch in w1]
    c2 = ["A" if any_classes else classes_of(ch) for ch in w2]
    op = dict(op="dl", inst=inst, w1=[ord(x) for x in w1], c1=c1, w2=[ord(x) for x in w2], c2=c2, cells_all_upto=cells_all)
    if sample:
        op["cells_sample"] = sample
        op["cells_phase"] = phase
    return op


def gen_dl_cases(rnd, tier):
    """C16 / C19: word pairs exhaustively over a small mixed alphabet, then random longer words (several times the
    initial capacity of 20) alternating long and short; each pair also swapped, with all-Any classes, and some of its
    prefix pairs on a fresh instance first"""
    cases = []
    nsym, maxlen = (4, 2) if tier == "quick" else (4, 3)
    cls = dict(MODEL_SYMS)
    words = ["".join(MODEL_SYMS[k][0] for k in w) for w in all_words(nsym, maxlen)]
    c = Case("C16", "exhaustive-small")
    c.op(op="dlnew", inst=1)
    for a in words:
        for b in words:
            c.ops.append(dl_op(1, a, b, lambda ch: cls[ch]))
    cases.append(c)
    c = Case("C16", "exhaustive-small-any")
    for a in words:
        for b in words:
            c.ops.append(dl_op(1, a, b, lambda ch: cls[ch], any_classes=True))
            c.ops.append(dl_op(1, a, b, lambda ch: cls[ch]))
    cases.append(c)
    # random words over a richer alphabet, classes a function of the character
    alpha = "aeiouytnsrlkdm7-3жλ4д3гs"
    cmap = {}
    for ch in alpha:
        cmap[ch] = "V" if ch in "aeiouy" else "C" if ch in "tnsrlkdm" else "N" if ch in "7-34" else "A"
    nrand = 40 if tier == "quick" else 700
    for k in range(nrand):
        c = Case("C16", "random-history")
        inst = 1
        c.op(op="dlnew", inst=inst)
        size_now = 22
        steps = 8 if k % 8 == 0 else rnd.randint(3, 8)
        for s in range(steps):
            long_turn = (s % 2 == 0) == (k % 2 == 0)
            hi = rnd.choice([25, 45, 80]) if long_turn else 6
            lo = 15 if long_turn else 0
            if tier == "quick" and hi > 45 and k % 8 != 0:
                hi = 45
            if k % 8 == 0:
                # very long, then medium (longer than the initial capacity of 20), then short: growth and any later
                # re-dimensioning of the matrix must always leave room for the pair at hand
                lo, hi = [(60, 80), (21, 30), (0, 6), (22, 26), (60, 70), (30, 34), (21, 23), (0, 3)][s % 8]
            la, lb = rnd.randint(lo, hi), rnd.randint(lo, hi)
            sub = alpha[:rnd.choice([3, 6, len(alpha)])]
            a = "".join(rnd.choice(sub) for _ in range(la))
            if rnd.random() < 0.5:   # a relative of a: a few edits
                b = list(a)
                for _e in range(rnd.randint(0, 3)):
                    if b and rnd.random() < 0.5:
                        i = rnd.randrange(len(b))
                        if rnd.random() < 0.5 and i + 1 < len(b):
                            b[i], b[i + 1] = b[i + 1], b[i]
                        else:
                            del b[i]
                    else:
                        b.insert(rnd.randint(0, len(b)), rnd.choice(sub))
                b = "".join(b)
            else:
                b = "".join(rnd.choice(sub) for _ in range(lb))
            # some prefix pairs on a fresh instance first (they become the memo the cells are compared with)
            npre = 2 if max(len(a), len(b)) > 20 else 4
            for _p in range(npre):
                i, j = rnd.randint(0, len(a)), rnd.randint(0, len(b))
                if abs(i - j) <= 3 or rnd.random() < 0.3:
                    c.op(op="dlnew", inst=99)
                    c.ops.append(dl_op(99, a[:i], b[:j], lambda ch: cmap[ch], cells_all=0))
            small = (len(a) + 1) * (len(b) + 1) <= 200
            c.ops.append(dl_op(inst, a, b, lambda ch: cmap[ch], cells_all=200, sample=0 if small else 12, phase=rnd.randint(0, 1000)))
            need = max(len(a), len(b)) + 2
            if need > size_now:
                # the matrix has just grown (DamLev.tla, GrownSize): words whose length sits right at the new dimension
                size_now = need + need // 2
                if size_now <= 60 or tier != "quick":
                    for ln in (size_now - 3, size_now - 2, size_now - 1, size_now):
                        wl = "".join(rnd.choice(sub) for _ in range(ln))
                        c.ops.append(dl_op(inst, wl[:5], wl, lambda ch: cmap[ch], cells_all=0))
                        c.ops.append(dl_op(inst, wl, wl[:4], lambda ch: cmap[ch], cells_all=0))
                        need2 = ln + 2
                        if need2 > size_now:
                            size_now = need2 + need2 // 2
            c.ops.append(dl_op(inst, b, a, lambda ch: cmap[ch], cells_all=0))
            c.ops.append(dl_op(inst, a, b, lambda ch: cmap[ch], cells_all=0, any_classes=True))
            c.ops.append(dl_op(inst, a, b, lambda ch: cmap[ch], cells_all=0))
        cases.append(c)
    # the initial dimension from both sides: the first calls of a never-grown instance with words whose length sits at
    # the initial capacity (InitCapacity = 20, dimension 22) -3 .. +4, as either argument, against a short word, a
    # relative of the same length and itself; the same pairs afterwards on an instance that has grown far beyond them
    for rep in range(2 if tier == "quick" else 12):
        sub = alpha[:rnd.choice([3, 6, len(alpha)])]
        for ln in range(17, 25):
            c = Case("C16", "initial-boundary")
            w = "".join(rnd.choice(sub) for _ in range(ln))
            short = alpha[-1] + w[ln - 2:]
            i = rnd.randrange(ln - 1)
            rel = w[:i] + w[i + 1] + w[i] + w[i + 2:]
            head = alpha[-1] + w[:2]            # an extra first letter, then the beginning of the long word
            tiny = [(alpha[-1] + w[:1], w[:1]), (w[:3], w[1:4]), (alpha[-1] + alpha[-2] + w[:2], w[:2]), (w[:2], alpha[-1] + w[:2])]
            rest = [(w, short), (w, head), (w, rel), (rel, w), (w, w), (w[:ln - 1], w), (w, w[1:])]
            rnd.shuffle(rest)
            # short first arguments first (few rows), then short words again on the same instance, then the long rows
            pairs = [(short, w), (head, w)] + tiny + rest + tiny
            # the prefixes of the short first arguments against the first letters of the long word, each on its own on
            # a fresh instance: the memo that the prefix cells of the boundary calls are compared with
            for sw in (head, short):
                for i in range(1, len(sw) + 1):
                    for j in range(1, 4):
                        c.op(op="dlnew", inst=99)
                        c.ops.append(dl_op(99, sw[:i], w[:j], lambda ch: cmap[ch], cells_all=0))
            c.op(op="dlnew", inst=1)
            for k, (a, b) in enumerate(pairs):
                c.ops.append(dl_op(1, a, b, lambda ch: cmap[ch], cells_all=200 if k < 2 else 0))
            c.op(op="dlnew", inst=2)
            big = "".join(rnd.choice(sub) for _ in range(70))
            c.ops.append(dl_op(2, big, big[3:], lambda ch: cmap[ch], cells_all=0))
            for a, b in pairs:
                c.ops.append(dl_op(2, a, b, lambda ch: cmap[ch], cells_all=0))
            cases.append(c)
    # one search: the same first argument (the query word) against a series of second arguments (the record words), as
    # word_match calls it - short words, then one that makes the matrix grow, then short ones again whose best alignment
    # drops the query's first letters; every pair first on an instance of its own (the memo)
    for rep in range(4 if tier == "quick" else 40):
        sub = alpha[:rnd.choice([6, len(alpha)])]
        vow = [ch for ch in sub if cmap[ch] == "V"] or [sub[0]]
        stem = "".join(rnd.choice(sub) for _ in range(rnd.randint(5, 8)))
        q = rnd.choice(vow) + stem
        series = [stem, q[:4] + rnd.choice(sub), q + "".join(rnd.choice(sub) for _ in range(rnd.randint(14, 24))), stem,
                  q[1:] + rnd.choice(sub), q[2:], rnd.choice(vow) + q, q]
        c = Case("C16", "one-query-many-records")
        for w2 in series:
            c.op(op="dlnew", inst=99)
            c.ops.append(dl_op(99, q, w2, lambda ch: cmap[ch], cells_all=0))
        c.op(op="dlnew", inst=1)
        for w2 in series:
            c.ops.append(dl_op(1, q, w2, lambda ch: cmap[ch], cells_all=0))
        cases.append(c)
    # lopsided growth: both words longer than the current dimension, one much longer than the other, in either argument
    # order, as the first call of an instance and again after it has grown
    for rep in range(3 if tier == "quick" else 20):
        sub = alpha[:rnd.choice([3, 6, len(alpha)])]
        for order in (0, 1):
            c = Case("C16", "lopsided-growth")
            c.op(op="dlnew", inst=1)
            size_now = 22
            for _round in range(2):
                la = size_now + rnd.randint(-1, 3)
                lb = la + la // 2 + rnd.randint(2, 8) + (la if rnd.random() < 0.3 else 0)
                a = "".join(rnd.choice(sub) for _ in range(la))
                b = (a + "".join(rnd.choice(sub) for _ in range(lb)))[:lb] if rnd.random() < 0.5 else "".join(rnd.choice(sub) for _ in range(lb))
                x, y = (a, b) if order == 0 else (b, a)
                c.ops.append(dl_op(1, x, y, lambda ch: cmap[ch], cells_all=0))
                c.ops.append(dl_op(1, y, x, lambda ch: cmap[ch], cells_all=0))
                need = max(la, lb) + 2
                size_now = need + need // 2
            cases.append(c)
    return cases


# letters that coincide once a code point is cut to 7, 8 or 16 bits (t, ô, Ŵ-like, Linear B; s ...; a Hangul syllable and
# the mathematical letter with the same low 16 bits): distinct characters for every set the matcher builds
COLLIDING = "".join(chr(x) for x in [0x74, 0xF4, 0x174, 0x10074, 0x73, 0xF3, 0x173, 0x10073, 0xD42C, 0x1D42C, 0x61, 0x161])


def gen_wm_long_cases(rnd, tier):
    """C16 at the call site: the real word_match on tokenised words around and beyond the matrix's initial capacity - a long
    word against itself, its single edits, its rotations and its prefixes, finished and unfinished; what it reports for the
    matched prefix pair is compared with their distance on an instance of its own"""
    cases = []
    n = 6 if tier == "quick" else 80
    for k in range(n):
        lang = LANGS[k % len(LANGS)]
        letters = script_letters(lang)
        c = Case("C16", "word-match-long", lang=lang)
        for _w in range(4):
            ln = rnd.choice([8, 15, 20, 21, 22, 26, 34])
            w = rand_word(rnd, letters, ln, ln)
            rot = w[ln // 2:] + w[:ln // 2]
            i = rnd.randrange(1, ln - 1)
            variants = [w, w[:i] + w[i + 1:], w[:i] + w[i + 1] + w[i] + w[i + 2:], rot, w[:ln - 3], "x" + w[:ln // 2], w[1:], w[:i] + rnd.choice(letters) + w[i:]]
            for v in variants:
                for q in (v, v + " "):
                    c.op(op="wm", lang=lang, r=cps(w), q=cps(q), ri=0, qi=0)
                c.op(op="wm", lang=lang, r=cps(v), q=cps(w), ri=0, qi=0)
        cases.append(c)
    return cases


def gen_jac_cases(rnd, tier):
    """C17 / C19: all pairs of short sequences over three symbols, then random long ones (beyond the initial buffer
    capacity of 20) in random call orders, each also swapped, permuted and with repetitions"""
    cases = []
    maxlen = 3 if tier == "quick" else 4
    seqs = ["".join("abc"[k] for k in w) for w in all_words(3, maxlen)]
    c = Case("C17", "exhaustive-small")
    c.op(op="jacnew", inst=1)
    for a in seqs:
        for b in seqs:
            c.op(op="jac", inst=1, a=cps(a), b=cps(b))
    cases.append(c)
    nrand = 60 if tier == "quick" else 1500
    for k in range(nrand):
        c = Case("C17", "random-history")
        c.op(op="jacnew", inst=1)
        for s in range(rnd.randint(3, 8)):
            long_turn = (s % 2 == 0) == (k % 2 == 0)
            hi = rnd.choice([25, 50, 80]) if long_turn else 5
            alpha = "abcdefghijklmnopqrstuvwxyzäöü0123456789"[:rnd.choice([3, 8, 39])]
            if rnd.random() < 0.2:
                alpha = COLLIDING
            a = [ord(rnd.choice(alpha)) for _ in range(rnd.randint(0, hi))]
            b = [ord(rnd.choice(alpha)) for _ in range(rnd.randint(0, hi))]
            c.op(op="jac", inst=1, a=a, b=b)
            c.op(op="jac", inst=1, a=b, b=a)
            if s % 2 == 0:
                # a small set against one several times larger (both orders)
                wide = "abcdefghijklmnopqrstuvwxyz0123456789"
                small = [ord(x) for x in rnd.sample(wide, rnd.randint(1, 4))]
                big = [ord(x) for x in rnd.sample(wide, rnd.randint(9, 30))]
                c.op(op="jac", inst=1, a=small, b=big)
                c.op(op="jac", inst=1, a=big, b=small)
            a2 = a + [rnd.choice(a)] * rnd.randint(0, 3) if a else a
            rnd.shuffle(a2)
            c.op(op="jac", inst=1, a=a2, b=b)
        cases.append(c)
    return cases


def gen_lsort_cases(rnd, tier):
    cases = []
    n = 30 if tier == "quick" else 600
    for _ in range(n):
        c = Case("C06", "limitsort")
        for _k in range(10):
            m = rnd.randint(0, 25)
            items = [[rnd.randint(0, rnd.choice([2, 5, 100])), i] for i in range(m)]
            c.op(op="lsort", items=items, limit=rnd.randint(0, 8), stable=rnd.random() < 0.3)
        cases.append(c)
    # input lengths that are exact multiples of the limit (the chunked selection compacts at 2 x limit), one more, one less
    c = Case("C06", "limitsort-multiples")
    for limit in range(1, 14 if tier == "quick" else 40):      # (std's select_nth sorts slices of <= 16 by insertion)
        for k in (1, 2, 3, 4):
            for off in (-1, 0, 1):
                m = max(0, k * limit + off)
                items = [[rnd.randint(0, rnd.choice([3, 100])), i] for i in range(m)]
                c.op(op="lsort", items=items, limit=limit, stable=rnd.random() < 0.3)
    cases.append(c)
    return cases


TOK_ALPHABET = ["a", "o", "t", "n", "ж", "T", "7", "-", " ", "$", "\u0000", "\t", "́", "̈", "é", "ä", "ё", "ß", "œ", "É", ".", "'", " ", "ǅ", "İ", "ﬁ", "​"]


def gen_tok_cases(rnd, tier, pools):
    """C15: every string up to a small length over an adversarial alphabet, random Unicode strings, corpus titles;
    both tokenisers, all languages"""
    cases = []
    maxlen = 3 if tier == "quick" else 4
    nsym = 9 if tier == "quick" else 10
    per_lang_alpha = {
        "none": ["a", "T", "7", "-", " ", "$", "\u0000", "́", "é", "ß"],
        "en":   ["a", "T", "7", "-", " ", "$", "\u0000", "t", "é", "'"],
        "de":   ["a", "T", "7", "-", " ", "$", "̈", "ä", "ß", "Ä"],
        "fr":   ["e", "T", "7", "-", " ", "$", "́", "é", "œ", "É"],
        "es":   ["a", "T", "7", "-", " ", "$", "́", "á", "ñ", "̃"],
        "pt":   ["a", "T", "7", "-", " ", "$", "̃", "ã", "ç", "̧"],
        "ru":   ["е", "Т", "7", "-", " ", "$", "̈", "ё", "и", "Ё"],
    }
    for lang in LANGS:
        alpha = per_lang_alpha[lang][:nsym]
        c = Case("C15", "exhaustive-small", lang=lang)
        for w in all_words(len(alpha), maxlen):
            s = "".join(alpha[k] for k in w)
            c.op(op="tok", lang=lang, text=cps(s), kind="q")
            c.op(op="tok", lang=lang, text=cps(s), kind="r")
        cases.append(c)
        nrand = 4 if tier == "quick" else 60
        for _ in range(nrand):
            c = Case("C15", "random", lang=lang)
            for _k in range(50):
                r = rnd.random()
                if r < 0.35:
                    s = rnd.choice(pools[lang])
                elif r < 0.5:
                    s = rnd.choice(ADVERSARIAL)
                elif r < 0.8:
                    s = "".join(rnd.choice(TOK_ALPHABET + alpha) for _ in range(rnd.randint(0, 16)))
                else:
                    s = "".join(chr(rnd.choice([rnd.randint(0, 0x2FF), rnd.randint(0x300, 0x36F), rnd.randint(0x400, 0x4FF),
                                                rnd.randint(0x2000, 0x206F), rnd.randint(0x1E00, 0x1EFF), rnd.randint(0xFF00, 0xFFEF),
                                                rnd.randint(0x10000, 0x1F9FF)])) for _ in range(rnd.randint(1, 12)))
                c.op(op="tok", lang=lang, text=cps(s), kind=rnd.choice(["q", "r"]))
            cases.append(c)
    return cases


_STRATA = None


def unicode_strata():
    """letters, marks and digits of the Basic Multilingual Plane and the first supplementary planes, grouped by
    (64-code-point page, general category): the tokeniser classifies characters by hand-written lists, so every corner
    of the letter/digit space is a place where a list can be wrong"""
    global _STRATA
    if _STRATA is None:
        import unicodedata
        st = {}
        for cp in list(range(0x80, 0xD800)) + list(range(0xE000, 0x20000)):
            cat = unicodedata.category(chr(cp))
            if cat[0] in "LN" or cat in ("Mn", "Mc", "Pd", "Pc", "Sk"):
                st.setdefault((cp >> 6, cat), []).append(cp)
        _STRATA = st
    return _STRATA


def gen_unicode_sweep(rnd, tier):
    """C15: one or two members of every (page, category) stratum, inside a word, at its ends and alone, in both tokenisers"""
    st = unicode_strata()
    picks = []
    for (page, cat), members in sorted(st.items()):
        homogeneous = cat in ("Lo", "Ll", "Lu") and len(members) > 24
        k = (1 if homogeneous else 2) if tier == "quick" else (4 if homogeneous else 40)
        if cat in ("Lm", "Lt", "Pd", "Pc"):
            k = 64                        # modifier and title-case letters, dashes and connectors: every one, every run
        if tier == "quick" and homogeneous and page >= (0x3400 >> 6) and rnd.random() < 0.75:
            continue                      # ideographs and syllables: a quarter of the pages per run
        picks += rnd.sample(members, min(k, len(members)))
    cases = []
    langs = list(LANGS)
    for i in range(0, len(picks), 400):
        lang = langs[(i // 400) % len(langs)]
        c = Case("C15", "unicode-sweep", lang=lang)
        for cp in picks[i:i + 400]:
            c.op(op="tok", lang=lang, text=[97, cp, 98], kind="q")
            c.op(op="tok", lang=lang, text=[cp, 97, 32, 98, cp], kind="r")
        cases.append(c)
    return cases


def gen_prepare_cases(lang, rnd, titles, toks, ncases):
    """C18: stores built by random adds (duplicates, empty titles, one-letter words, repetitive corpora so that more
    than 10 x size records share grams), queries around them, sizes 0..3"""
    cases = []
    for k in range(ncases):
        c = Case("C18", "prepare", lang=lang)
        sid = c.new_store(lang)
        base = [rnd.choice(titles) for _ in range(rnd.randint(1, 4))]
        n = rnd.choice([3, 8, 15, 35])
        recs = []
        misses = []
        for i in range(n):
            r = rnd.random()
            if r < 0.5:
                t = rnd.choice(base)
            elif r < 0.6:
                t = rnd.choice(["", "a", "x y", "-", "a b c"])
            elif r < 0.8:
                ws = rnd.choice(base).split()
                t = " ".join(rnd.sample(ws, rnd.randint(1, len(ws)))) if ws else ""
            else:
                t = rnd.choice(titles)
            recs.append(t)
            c.add(sid, i + 1, t, rnd.randint(0, 100))
            if rnd.random() < 0.15:
                q = random_query(lang, rnd, recs, toks)
                c.op(op="prepare", sid=sid, q=cps(q), size=rnd.randint(0, 3))
            if rnd.random() < 0.12:
                # a query that (most likely) misses everything so far, asked again after more records arrived
                qm = rand_word(rnd, script_letters(lang), 2, 5)
                misses.append(qm)
                c.op(op="prepare", sid=sid, q=cps(qm), size=rnd.randint(1, 3))
        for qm in misses:
            c.op(op="prepare", sid=sid, q=cps(qm), size=3)
            c.op(op="prepare", sid=sid, q=cps(qm[:2]), size=3)
        for _q in range(6):
            q = random_query(lang, rnd, recs, toks)
            for size in rnd.sample([0, 1, 2, 3], 2):
                c.op(op="prepare", sid=sid, q=cps(q), size=size)
        if k % 4 == 0:
            # a pasted paragraph as the query (a dozen words, far more letters and grams than any title): the words a record
            # shares with it stand at its end, in the middle or at its start
            own = [w for w in " ".join(recs).split(" ") if w][:2] or ["a"]
            filler = [w for w in " ".join(rnd.sample(titles, min(6, len(titles)))).split(" ") if w][:14]
            for where in (len(filler), len(filler) // 2, 0):
                q = " ".join(filler[:where] + own + filler[where:])[:180]
                c.op(op="prepare", sid=sid, q=cps(q), size=rnd.choice([1, 3]))
        if k % 3 == 1:
            # the store is cleared and a smaller / other catalogue arrives: positions start again at 0
            # (asked right before and typed on right after; half of the time the new catalogue has as many records as the old)
            qa = random_query(lang, rnd, recs, toks)[:3] or "a"
            c.op(op="prepare", sid=sid, q=cps(qa), size=2)
            c.op(op="clear", sid=sid)
            recs2 = [rnd.choice(base + titles[:5]) for _ in range(len(recs) if rnd.random() < 0.5 else rnd.randint(1, 4))]
            for i, t in enumerate(recs2):
                c.add(sid, 900 + i, t, rnd.randint(0, 100))
            c.op(op="prepare", sid=sid, q=cps(qa + rnd.choice(script_letters(lang))), size=2)
            c.op(op="prepare", sid=sid, q=cps(qa + " " + (recs2[0].split() or ["x"])[0][:3]), size=2)
            for _q in range(3):
                c.op(op="prepare", sid=sid, q=cps(random_query(lang, rnd, recs2, toks)), size=rnd.randint(1, 3))
            c.op(op="prepare", sid=sid, q=cps(random_query(lang, rnd, recs, toks)), size=3)
        # a gram repeated in the query (words starting alike, a word twice) must count once: records sharing only that
        # gram compete with more than 10 x size records that share two other grams
        letters = script_letters(lang)
        ws = [w for t in base for w in t.split() if len(w) >= 3 and w[0].lower() in letters]
        if ws and k % 2 == 0:
            v = rnd.choice(ws).lower()
            xs = [ch for ch in letters if ch != v[0]]
            x = rnd.choice(xs)
            others = [ch for ch in letters if ch not in (x, v[0], v[1])]
            nid = n + 1
            for _k in range(rnd.randint(11, 14)):
                c.add(sid, nid, v[:2] + rnd.choice(others) + " " + rnd.choice(others) + rnd.choice(others), rnd.randint(0, 100))
                nid += 1
            for _k in range(rnd.randint(3, 6)):
                c.add(sid, nid, x + rnd.choice(others), rnd.randint(0, 100))
                nid += 1
            qrep = " ".join(x + ch for ch in rnd.sample(others, 3)) + " " + v[:2]
            c.op(op="prepare", sid=sid, q=cps(qrep), size=1)
            c.op(op="prepare", sid=sid, q=cps(x + x + x + x + " " + v[:2]), size=1)
            c.op(op="prepare", sid=sid, q=cps(v + " " + v + " " + v[:2]), size=1)
        cases.append(c)
    # exactly k x (10 x size) records share a gram with the query, with differing overlaps in scrambled order: the cap, twice
    # the cap, three times (the selection compacts its buffer at twice the cap), one more and one less
    letters = script_letters(lang)
    for size in (1, 2):
        c = Case("C18", "prepare-multiples", lang=lang)
        sid = c.new_store(lang)
        w = rand_word(rnd, letters, 8, 10)
        nid = 1
        have = 0
        for k in (1, 2, 3):
            for off in (-1, 0, 1):
                target = k * 10 * size + off
                while have < target:
                    cut = rnd.randint(1, len(w))
                    c.add(sid, nid, w[:cut] + rnd.choice(["", " " + rand_word(rnd, letters, 2, 4)]), rnd.randint(0, 100))
                    nid += 1
                    have += 1
                c.op(op="prepare", sid=sid, q=cps(w), size=size)
                c.op(op="prepare", sid=sid, q=cps(w[:3]), size=size)
        cases.append(c)
    # a query of very many grams (a whole long title typed), more than the cap of records sharing nearly all of them, and
    # the record that shares them all added last
    for size in (1, 2):
        c = Case("C18", "prepare-long-query", lang=lang)
        sid = c.new_store(lang)
        w = rand_word(rnd, letters, 36, 44)
        n = 10 * size + rnd.randint(1, 4)
        for i in range(n):
            c.add(sid, i + 1, w[:rnd.randint(len(w) - 4, len(w) - 1)], rnd.randint(0, 100))
        c.add(sid, n + 1, w, 0)
        c.op(op="prepare", sid=sid, q=cps(w), size=size)
        c.op(op="prepare", sid=sid, q=cps(w + " " + w[:5]), size=size)
        cases.append(c)
    # a long-lived index: an input, then another one repeated a great many times (around 2^8 and 2^16 calls), then the
    # first input again - per-query bookkeeping that is stamped or counted in a narrow integer comes round
    if lang in ("en", "de"):
        c = Case("C18", "prepare-long-lived", lang=lang)
        sid = c.new_store(lang)
        wa, wb = rand_word(rnd, letters, 5, 7), rand_word(rnd, letters, 5, 7)
        for i in range(6):
            c.add(sid, i + 1, (wa if i % 2 == 0 else wb) + " " + rand_word(rnd, letters, 3, 5), i)
        for times in (254, 255, 256, 65533, 65534, 65535, 65536):
            c.op(op="prepare", sid=sid, q=cps(wa), size=3)
            c.op(op="prepare", sid=sid, q=cps(wb), size=3, times=times)
            c.op(op="prepare", sid=sid, q=cps(wa), size=3)
        cases.append(c)
    # words that differ only in a first character cut to 16 bits (and the like): all of them as records, alone and in
    # pairs, and as queries - grams are triples of characters, however they are packed
    if lang in ("none", "en"):
        heads = [0x74, 0x10074, 0x73, 0x10073, 0xD42C, 0x1D42C]
        words = [[h] + cps(t) for h in heads for t in ("sa", "us")]
        c = Case("C18", "prepare-colliding", lang=lang)
        sid = c.new_store(lang)
        nid = 1
        for wd in words:
            c.add(sid, nid, wd, 1)
            nid += 1
        twins = [([h1] + cps(t), [h2] + cps(t)) for h1, h2 in ((0x74, 0x10074), (0x73, 0x10073), (0xD42C, 0x1D42C)) for t in ("sa", "us")]
        for a, b in twins:
            for x, y in ((a, b), (b, a)):
                c.add(sid, nid, x + [32] + y, 1)
                nid += 1
        for _k in range(6):
            a, b = rnd.sample(words, 2)
            c.add(sid, nid, a + [32] + b, 1)
            nid += 1
        for wd in words:
            c.op(op="prepare", sid=sid, q=wd, size=3)
        for a, b in twins:
            c.op(op="prepare", sid=sid, q=a + [32] + b, size=3)
            c.op(op="prepare", sid=sid, q=[120] + a + [32, 120] + b, size=3)
        for _k in range(8):
            a, b = rnd.sample(words, 2)
            c.op(op="prepare", sid=sid, q=[120] + a[1:] + [32] + b, size=3)
        cases.append(c)
    return cases


def gen_registry_cases(rnd, ncases, pools, toks, length=30):
    """C20: interleaved valid calls over several store ids through the top-level API; a stand-alone Store per id
    (sid = 1000 + id) is driven in lock-step and asked first, all live buffers are read after every call"""
    cases = []
    for _ in range(ncases):
        c = Case("C20", "registry")
        live = {}
        ids = [1, 2, 3, 7]
        if rnd.random() < 0.3:
            # ids from the whole range of usize: the harness maps logged ids 100..199 to (id - 100) + 2^32, so 101 and 107
            # differ from 1 and 7 only above bit 31
            ids = [1, 7, 101, 107]
        nrid = 1
        last_q = None
        if rnd.random() < 0.6:
            # two stores of different languages holding the same titles receive the same inputs alternately
            la, lb = rnd.sample(LANGS, 2)
            for i, lg in ((1, la), (2, lb)):
                live[i] = dict(lang=lg, titles=[])
                c.op(op="r_create", id=i, lang=lg)
                c.op(op="new", sid=1000 + i, lang=lg)
                c.op(op="r_markers", id=i, l=SENT_L, r=SENT_R)
                c.op(op="markers", sid=1000 + i, l=SENT_L, r=SENT_R)
            shared_titles = [rnd.choice(pools[la]), rnd.choice(pools[lb]), rnd.choice(["Straße Größe", "université café", "running shoes", "ёлка мёд"]),
                             "old orange elephant under a cafe near us", "Öl Äpfel Übung école ñandú ça ёж"]
            if rnd.random() < 0.5:
                # a word longer than the scratch buffers' initial capacity (20) is met first: what the thread-wide buffers look
                # like after growing (and, in a changed tree, shrinking) is what every later call of every id works with
                shared_titles.insert(0, rand_word(rnd, script_letters(la), 22, 34) + " " + rand_word(rnd, script_letters(la), 4, 7))
            for t in shared_titles:
                for i in (1, 2):
                    c.op(op="r_add", id=i, rid=nrid, title=cps(t), rating=nrid)
                    c.op(op="add", sid=1000 + i, id=nrid, title=cps(t), rating=nrid)
                    live[i]["titles"].append(t)
                nrid += 1
            for t in shared_titles:
                for w in t.split()[:2] + t.split()[2:][:5 if t.startswith("Öl") else 0]:
                    for q in (w, w[:max(1, len(w) - 1)], w + " ", w[:1], w[:2]):
                        for i in (1, 2, 1):
                            c.search(1000 + i, q, tag="sa%d" % i, want=["qtok", "fresh"], rep=1)
                            c.op(op="r_search", id=i, q=cps(q))
        if rnd.random() < 0.35 and 7 not in live:
            # one id holding many records that share a word, under limits above the default buffer capacity of 10
            lg = rnd.choice(LANGS)
            live[7] = dict(lang=lg, titles=[])
            c.op(op="r_create", id=7, lang=lg)
            c.op(op="new", sid=1007, lang=lg)
            shared = rand_word(rnd, script_letters(lg), 5, 7)
            rare = rand_word(rnd, script_letters(lg), 6, 8)
            for k in range(rnd.randint(14, 30)):
                t = shared + " " + (rare if k < 3 else rand_word(rnd, script_letters(lg), 3, 6)) + " %d" % k
                c.op(op="r_add", id=7, rid=nrid, title=cps(t), rating=nrid)
                c.op(op="add", sid=1007, id=nrid, title=cps(t), rating=nrid)
                live[7]["titles"].append(t)
                nrid += 1
            plan7 = [(rnd.choice([12, 15]), shared), (None, rare), (rnd.choice([25, 40]), shared), (3, shared), (11, shared[:2])]
            if rnd.random() < 0.5:
                # limits so small that the candidate cap (10 x limit) cuts the matching records off, then other inputs
                plan7 = [(rnd.choice([1, 2]), shared), (None, rare[:1]), (None, rare), (None, rare[:2]), (1, shared[:3]), (None, rare[:1]),
                         (None, shared + " " + rare), (None, rare[:1])] + plan7
            for lim, q in plan7:
                if lim is not None:
                    c.op(op="r_limit", id=7, limit=lim)
                    c.op(op="limit", sid=1007, limit=lim)
                c.search(1007, q, tag="sa7", want=["qtok", "fresh"], rep=1)
                c.op(op="r_search", id=7, q=cps(q))
        if rnd.random() < 0.35 and 3 in ids and 3 not in live:
            # one id whose top-rated list is full when records arrive that tie with its last entry: equal rating and a title
            # before / after it in title order (the empty query is asked before and after each arrival)
            lg = rnd.choice(LANGS)
            live[3] = dict(lang=lg, titles=[])
            c.op(op="r_create", id=3, lang=lg)
            c.op(op="new", sid=1003, lang=lg)
            k = rnd.choice([1, 2, 3])
            c.op(op="r_limit", id=3, limit=k)
            c.op(op="limit", sid=1003, limit=k)
            ws = sorted({rand_word(rnd, script_letters(lg), 4, 6) for _k in range(k + 4)})
            mid = ws[1:k + 2]
            rts = list(range(50, 50 - 10 * len(mid), -10))
            arrivals = list(zip(mid, rts)) + [(ws[0], rts[k - 1]), (ws[-1], rts[k - 1]), (ws[0] + "a", rts[0])]
            for n_, (t, rt) in enumerate(arrivals):
                c.op(op="r_add", id=3, rid=nrid, title=cps(t), rating=rt)
                c.op(op="add", sid=1003, id=nrid, title=cps(t), rating=rt)
                live[3]["titles"].append(t)
                nrid += 1
                if n_ >= len(mid) - 1:
                    c.search(1003, "", tag="sa3", want=["qtok", "fresh"], rep=1)
                    c.op(op="r_search", id=3, q=[])
        for _s in range(length):
            r = rnd.random()
            if (r < 0.15 or not live) and len(live) < len(ids):
                i = rnd.choice([x for x in ids if x not in live])
                lang = rnd.choice(LANGS)
                live[i] = dict(lang=lang, titles=[])
                c.op(op="r_create", id=i, lang=lang)
                c.op(op="new", sid=1000 + i, lang=lang)
                if rnd.random() < 0.5:
                    c.op(op="r_markers", id=i, l=SENT_L, r=SENT_R)
                    c.op(op="markers", sid=1000 + i, l=SENT_L, r=SENT_R)
                continue
            i = rnd.choice(list(live))
            L = live[i]
            if r < 0.22:
                c.op(op="r_destroy", id=i)
                c.op(op="drop", sid=1000 + i)
                del live[i]
            elif r < 0.55:
                t = rnd.choice(pools[L["lang"]]) if rnd.random() < 0.85 else rnd.choice(ADVERSARIAL)
                elsewhere = [x for j, o in live.items() if j != i for x in o["titles"]]
                if elsewhere and rnd.random() < 0.35:
                    t = rnd.choice(elsewhere)       # the same title in stores of different languages
                rating = rnd.randint(0, 50)
                c.op(op="r_add", id=i, rid=nrid, title=cps(t), rating=rating)
                c.op(op="add", sid=1000 + i, id=nrid, title=cps(t), rating=rating)
                L["titles"].append(t)
                nrid += 1
            elif r < 0.63:
                lim = rnd.choice([0, 0, 1, 2, 3, 10, 25, 40])
                if lim == 0 and L["titles"]:
                    # first something that fills the result buffer ...
                    w0 = (rnd.choice(L["titles"]).split() or ["a"])[0]
                    c.search(1000 + i, w0, tag="sa%d" % i, want=["qtok", "fresh"])
                    c.op(op="r_search", id=i, q=cps(w0))
                c.op(op="r_limit", id=i, limit=lim)
                c.op(op="limit", sid=1000 + i, limit=lim)
                if lim != 0 and L.get("lastq") is not None and rnd.random() < 0.6:
                    q = L["lastq"]                                       # the same input again under the new limit
                    c.search(1000 + i, q, tag="sa%d" % i, want=["qtok", "fresh"], rep=1)
                    c.op(op="r_search", id=i, q=cps(q))
                if lim == 0 or rnd.random() < 0.2:
                    q = rnd.choice(["zzqq", "xyxy", "qj", "0000"])      # nothing in common with any title
                    c.search(1000 + i, q, tag="sa%d" % i, want=["qtok", "fresh"])
                    c.op(op="r_search", id=i, q=cps(q))
            elif r < 0.7:
                l, rr = rnd.choice([("[", "]"), ("", ""), ("<b>", "</b>"), ("{{", "}}"), (chr(0xE000), chr(0xE001)), (chr(0xE000), chr(0xE001))])
                c.op(op="r_markers", id=i, l=cps(l), r=cps(rr))
                c.op(op="markers", sid=1000 + i, l=cps(l), r=cps(rr))
            elif r < 0.78 and L["titles"]:
                # the store behind the id is emptied through using_store (public, though not part of the WASM API)
                c.op(op="r_clear", id=i)
                c.op(op="clear", sid=1000 + i)
                gone = L["titles"]
                L["titles"] = []
                for q in ("", (rnd.choice(gone).split() or ["a"])[0]):
                    c.search(1000 + i, q, tag="sa%d" % i, want=["qtok", "fresh"], rep=1)
                    c.op(op="r_search", id=i, q=cps(q))
            else:
                q = random_query(L["lang"], rnd, L["titles"], toks) if L["titles"] and rnd.random() < 0.8 else rnd.choice(["", " ", "a", "zz"])
                if last_q is not None and rnd.random() < 0.3:
                    q = last_q                   # the very same input as the previous search (possibly on another id)
                if L.get("lastq") is not None and rnd.random() < 0.25:
                    q = L["lastq"]               # this id's own previous input again (e.g. after a limit change)
                c.search(1000 + i, q, tag="sa%d" % i, want=["qtok", "fresh"])
                c.op(op="r_search", id=i, q=cps(q))
                last_q = q
                L["lastq"] = q
        cases.append(c)
    return cases


def gen_markup_cases(lang, rnd, titles, toks, ncases):
    """C09 / C02: the places where the highlighter's arithmetic has corners - joined matches that end exactly at the
    gap or just behind it, one-letter halves, gaps of one and two characters, titles with very many words,
    characters that fold to two, and queries that match several words"""
    cases = []
    for k in range(ncases):
        c = Case("C09", "markup", lang=lang)
        sid = c.new_store(lang)
        qs = []
        rid = 1
        for _t in range(rnd.randint(1, 3)):
            t = rnd.choice(titles)
            tok = toks.get((lang, t))
            ws = [text(w) for w in words_of(tok)] if tok else []
            ws = [w for w in ws if len(w) >= 2]
            if len(ws) < 1:
                continue
            a = rnd.choice(ws)
            b = rnd.choice(ws)
            sep = rnd.choice([" ", "-", "  ", ", ", "'"])
            title = a + sep + b
            c.add(sid, rid, title, rnd.randint(0, 100))
            rid += 1
            x = rnd.choice(script_letters(lang))
            qs += [a + x, a + b[:1], a + b[:2], a + b, a[:-1] + b, a + x + b[:2], a[:1] + sep + a[1:], a + " " + b[:1], b + " " + a, a]
            # the same words split differently
            cut = rnd.randint(1, len(a) - 1)
            c.add(sid, rid, a[:cut] + sep + a[cut:], rnd.randint(0, 100))
            rid += 1
            qs += [a, a + x, a[:cut], a[:cut] + x]
        if k % 3 == 0:
            # a title with more than 64 words; only a late word is asked for
            filler = [rnd.choice(titles).split() for _ in range(30)]
            words = [w for f in filler for w in f][:rnd.randint(66, 90)]
            late = rand_word(rnd, script_letters(lang), 6, 9)
            pos = rnd.randint(64, len(words)) if len(words) >= 64 else len(words)
            words.insert(pos, late)
            c.add(sid, rid, " ".join(words), 5)
            rid += 1
            qs += [late, late[:4], late + " " + words[0]]
        for q in qs:
            c.search(sid, q)
        cases.append(c)
    return cases


def gen_table_cases(lang, rnd):
    """every composition pair and every reduction of the language's tables (spec/Langs.tla), alone and inside a word, in
    both tokenisers and as stored titles that are searched for: the tables themselves are part of the specification"""
    tab = LANGTAB[lang]
    cases = []
    c = Case("C15", "tables", lang=lang)
    strings = []
    for a, b in tab["compose"]:
        strings += [a, [120] + a + [121], b, a + a]
    for a, b in tab["reduce"]:
        strings += [a, [120] + a + [121], a + a]
    for w in tab["function_words"]:
        strings += [w["w"], w["w"] + [120], [120, 32] + w["w"] + [32, 121]]
    for s_ in strings:
        c.op(op="tok", lang=lang, text=s_, kind="r")
        c.op(op="tok", lang=lang, text=s_, kind="q")
    cases.append(c)
    return cases


def gen_table_store_cases(lang, rnd, prop="C02"):
    """titles built around each composition pair / reduction of the language, stored decomposed and precomposed"""
    tab = LANGTAB[lang]
    cases = []
    items = [(a, b) for a, b in tab["compose"]] + [(a, a) for a, b in tab["reduce"]]
    for k in range(0, len(items), 6):
        c = Case(prop, "tables", lang=lang)
        sid = c.new_store(lang)
        qs = []
        for j, (a, b) in enumerate(items[k:k + 6]):
            t = cps("ta") + a + cps("lo x") + a
            c.add(sid, 100 + j, t, j)
            qs.append(cps("ta") + b)
            qs.append(cps("ta"))
            # the shortest texts there are: the entry alone as a whole title, and with one letter before / after it
            c.add(sid, 200 + j, a, j)
            c.add(sid, 300 + j, a + cps("x") if j % 2 else cps("x") + a, j)
            qs.append(b)
        for q in qs:
            c.search(sid, q, alt=[dict(l=cps("<"), r=cps(">"))])
        c.search(sid, "")
        if prop == "C11" and any(len(a) == 2 for a, b in items[k:k + 6]):
            # the same titles stored precomposed: every composition pair of the table must give the stored-decomposed
            # store the same hits and the same returned titles (upper-case pairs included)
            sid2 = c.new_store(lang)
            for j, (a, b) in enumerate(items[k:k + 6]):
                c.add(sid2, 100 + j, cps("ta") + b + cps("lo x") + b, j)
                c.add(sid2, 200 + j, b, j)
                c.add(sid2, 300 + j, b + cps("x") if j % 2 else cps("x") + b, j)
            for qi, q in enumerate([cps("ta"), cps("x"), [], cps("talo")] + [cps("ta") + b for a, b in items[k:k + 6]][:3]):
                tag = "pc%d" % qi
                c.search(sid2, q, tag=tag)
                c.search(sid, q, expect=dict(prop="C11", kind="decomposed", tag=tag))
        if prop == "C11":
            # every table entry as a query variant: the letter itself against its decomposed / folded / other-case spelling
            decomp = {b[0]: a for a, b in tab["compose"]}
            fold = {a[0]: b for a, b in tab["reduce"]}
            for j, (a, b) in enumerate(items[k:k + 6]):
                ch = b[0] if len(b) == 1 and len(a) == 2 else a[0]
                base = cps("ta") + [ch]
                tag = "tb%d" % j
                c.search(sid, base, tag=tag)
                variants = []
                if ch in decomp:
                    variants.append(("d", decomp[ch]))
                if ch in fold:
                    variants.append(("f", fold[ch]))
                oc = chr(ch).swapcase()
                if len(oc) == 1 and oc != chr(ch) and oc.swapcase() == chr(ch):
                    variants.append(("c", [ord(oc)]))
                for op, rep in variants:
                    c.search(sid, cps("ta") + rep, expect=dict(prop="C11", kind="variant", tag=tag, base=base, ops=["k", "k", op], prefix=[]))
        cases.append(c)
    return cases


def gen_huge_store_cases(prop, lang, rnd, titles, ncases):
    """stores of more than a thousand records that share a word, under limits above one hundred (the index's candidate
    cap is 10 x limit): prefixes of the shared word and of a rare word; shuffled insertion orders for C07"""
    cases = []
    for _ in range(ncases):
        n = rnd.randint(1050, 1300)
        limit = rnd.choice([n, n + 5, 150, 200]) if prop in ("C03", "C04") else rnd.choice([150, 200, 130])
        shared = rand_word(rnd, script_letters(lang), 5, 7)
        c = Case(prop, "huge", lang=lang)
        sid = c.new_store(lang, limit=limit)
        rt = distinct_ratings(rnd, n, hi=100000)
        for i in range(n):
            c.add(sid, i + 1, shared + " " + rand_word(rnd, script_letters(lang), 3, 6) + " %d" % i, rt[i])
        if prop == "C04":
            # one record whose word becomes, with its first two letters swapped, a spelling that begins like the word all
            # the other records share: the typed misspelling shares its word-start grams with every one of them
            letters_ = [ch for ch in script_letters(lang) if ch not in shared]
            w = shared[1] + shared[0] + "".join(rnd.choice(letters_) for _ in range(rnd.randint(3, 4)))
            if len(set(w)) >= 3 and shared[0] != shared[1]:
                c.add(sid, n + 1, w + " " + rand_word(rnd, letters_, 3, 5), rnd.randint(0, 100000))
                c.op(op="limit", sid=sid, limit=n + 2)
                c.search(sid, shared[:2] + w[2:], expect=dict(prop="C04", kind="swap", rid=n + 1, widx=1))
                c.search(sid, w[:3] + w[4:], expect=dict(prop="C04", kind="del", rid=n + 1, widx=1))
        elif prop == "C03":
            c.op(op="limit", sid=sid, limit=n + 1)
            for rid in (1, n // 2, n):
                for k in (1, 2, len(shared)):
                    c.search(sid, shared[:k], expect=dict(prop="C03", kind="prefix", rid=rid, widx=1))
        elif prop == "C07":
            o1 = list(range(n)); rnd.shuffle(o1)
            c.search(sid, shared, perms=[o1, list(reversed(range(n)))])
            c.search(sid, shared[:2], perms=[o1])
        else:
            # too many records to ask each one alone: a sample (both ends, the middle, a dozen drawn) is asked, and must agree
            some = sorted(set([0, 1, n // 2, n - 2, n - 1] + rnd.sample(range(n), 12)))
            c.search(sid, shared, want=["qtok", "unlimited", "singles_some"], single_of=some)
            c.search(sid, shared[:1], want=["qtok", "unlimited", "singles_some"], single_of=some)
        cases.append(c)
    return cases


def gen_two_store_cases(prop, lang, rnd, titles):
    """two stores living on one thread (scratch state and anything kept per thread is shared between them): one of them is
    cleared, refilled with fewer records, dropped - and the other, larger one is searched after each of these steps"""
    cases = []
    for order in (0, 1):
        c = Case(prop, "two-stores", lang=lang)
        a = c.new_store(lang)
        b = c.new_store(lang if order else rnd.choice(LANGS))
        ta = [rnd.choice(titles) for _k in range(rnd.randint(3, 6))]
        tb = [rnd.choice(titles) for _k in range(rnd.randint(8, 14))]
        for i, t in enumerate(ta):
            c.add(a, 100 + i, t, rnd.randint(0, 1000))
        for i, t in enumerate(tb):
            c.add(b, 200 + i, t, rnd.randint(0, 1000))
        qa = (rnd.choice(ta).split() or ["a"])[0][:4] or "a"
        qb = (tb[-1].split() or ["a"])[0][:4] or "a"          # reaches the last position of the larger store
        want = ["qtok", "fresh"]
        def ask():
            c.search(b, qb, want=want, rep=1)
            c.search(b, "", want=want, rep=1)
            if order:
                c.op(op="prepare", sid=b, q=cps(qb), size=2)
        c.search(a, qa, want=want, rep=1)
        ask()
        c.op(op="clear", sid=a)
        ask()
        c.add(a, 150, rnd.choice(titles), 5)
        c.search(a, qa, want=want, rep=1)
        ask()
        c.op(op="drop", sid=a)
        ask()
        a2 = c.new_store(lang)
        c.add(a2, 300, rnd.choice(titles), 1)
        c.search(a2, qa, want=want, rep=1)
        ask()
        cases.append(c)
    return cases


def gen_long_lived_store_cases(prop, lang, rnd):
    """a store that has been in use for a long time: between two judged searches of the same prefix the store answers
    other queries 2^8 and 2^16 times, give or take one (the sizes at which narrow counters, stamps and generation numbers
    come round again); the records the other queries reach share no letter with the judged one"""
    letters = script_letters(lang)
    half = len(letters) // 2
    A, B = letters[:half], letters[half:]
    if len(A) < 3 or len(B) < 3:
        return []
    w1, x1, w2, x2 = rand_word(rnd, A, 5, 7), rand_word(rnd, A, 4, 6), rand_word(rnd, B, 5, 7), rand_word(rnd, B, 4, 6)
    c = Case(prop, "long-lived", lang=lang)
    sid = c.new_store(lang, limit=10)
    c.add(sid, 1, w1 + " " + x1, rnd.randint(0, 1000))
    c.add(sid, 2, w2 + " " + x2, rnd.randint(0, 1000))
    want = {"C10": ["qtok", "fresh"], "C06": ["qtok", "singles", "unlimited"]}.get(prop, ["qtok"])
    ex1 = {"expect": dict(prop="C03", kind="prefix", rid=1, widx=1)} if prop == "C03" else {}
    ex2 = {"expect": dict(prop="C03", kind="prefix", rid=2, widx=1)} if prop == "C03" else {}
    # a near miss of the first record's word that shares no gram with it (first two letters swapped)
    near = w1[1] + w1[0] + w1[2:4]
    c.search(sid, w1[:2], want=want, rep=1, **ex1)
    c.search(sid, w1, want=want, rep=1, **ex1)
    for gap in (254, 255, 256, 257, 65534, 65535, 65536, 65537):
        c.search(sid, w2[:2], want=want, times=gap, rep=1, **ex2)       # rep: repeated searches are the point (not de-duplicated)
        if prop in ("C05", "C06", "C10"):
            c.search(sid, near, want=want, rep=1)      # the first query to come near the first record again
        c.search(sid, w1[:2], want=want, rep=1, **ex1)
        c.search(sid, w1, want=want, rep=1, **ex1)
    return [c]


def gen_long_title_cases(lang, rnd):
    """C01: long titles (up to the 200-300 characters the checks explore), rich in distinct grams, searched by
    themselves and by their parts - counters, buffers and matrices at their largest"""
    cases = []
    longs = [t for t in ADVERSARIAL if len(t) > 100]
    for t in longs:
        c = Case("C01", "long-title", lang=lang)
        sid = c.new_store(lang, limit=rnd.choice([1, 10]))
        c.add(sid, 1, t, 1)
        c.add(sid, 2, t[:len(t) // 2], 2)
        for q in (t, t[:100], t[len(t) // 3:], t.upper() if len(t.upper()) == len(t) else t, t[:60] + " " + t[60:120]):
            c.search(sid, q)
        cases.append(c)
    return cases


def gen_vocab_cases(prop, lang, rnd, titles, toks, ncases):
    """C07 / C06: many small stores over a tiny vocabulary (two content words with an inflected form each, two function
    words of the language, a filler), so that records tie on most score components and the finer ones decide"""
    cases = []
    fws = [text(w["w"]) for w in LANGTAB[lang]["function_words"] if 2 <= len(w["w"]) <= 4] or ["of", "the"]
    suffix = {"en": ["s", "es", "ing"], "de": ["n", "en", "e"], "es": ["s", "es"], "fr": ["s", "es"], "pt": ["s", "es"],
              "ru": ["ы", "а", "ов"], "none": ["s", "es"]}[lang]
    content = []
    for t in titles:
        tok = toks.get((lang, t))
        for w in (words_of(tok) if tok else []):
            if 4 <= len(w) <= 8 and all(chr(x).isalpha() for x in w):
                content.append(text(w))
    content = sorted(set(content))
    for _ in range(ncases):
        if len(content) < 3:
            break
        u, v, g = rnd.sample(content, 3)
        vocab = [u, v, u + rnd.choice(suffix), v + rnd.choice(suffix), g] + rnd.sample(fws, min(2, len(fws)))
        c = Case(prop, "vocab", lang=lang)
        sid = c.new_store(lang)
        n = rnd.randint(6, 8)          # many records per store: the number of record triples grows with the cube
        rt = distinct_ratings(rnd, n, hi=100)
        seen = set()
        for i in range(n):
            t = " ".join(rnd.sample(vocab, rnd.randint(2, 3)))
            if t in seen:
                continue
            seen.add(t)
            c.add(sid, 100 + i, t, rt[i])
        m = len(seen)
        for _q in range(5):
            q = " ".join(rnd.sample(vocab, rnd.randint(2, 3)))
            perms = []
            for _p in range(2):
                o = list(range(m))
                rnd.shuffle(o)
                perms.append(o)
            if prop == "C07":
                c.search(sid, q, want=["qtok", "pairs"], max_pairs=28, perms=perms)
            else:
                c.search(sid, q, want=["qtok", "singles", "unlimited"])
        cases.append(c)
    return cases


def gen_gate_cases(rnd, tier):
    """C17 at the call site: the Jaccard pre-filter of word_match (matching/word.rs) on literal word pairs - a word and
    its single edits / prefixes, over alphabets that include look-alike code points (digits, letters 64 or 256 apart)"""
    cases = []
    alphas = ["abcde", "ts34-m", "aeiou", "abcdefghijklmnopqrstuvwxyz", "tд4ьs3é)i", "øoOo0", COLLIDING, COLLIDING,
              "ab\u0000 -c", "ab\u0000 -c"]      # joined views carry their separator: blank, hyphen, NUL are set elements too
    n = 50 if tier == "quick" else 800
    for k in range(n):
        c = Case("C17", "gate")
        alpha = alphas[k % len(alphas)]           # every alphabet in turn (a fixed share each, whatever the number of alphabets)
        for _ in range(40):
            w = [ord(rnd.choice(alpha)) for _ in range(rnd.randint(1, 9))]
            es = edits_of(w, alpha, rnd, 1)
            v = rnd.choice(es)[1] if es and rnd.random() < 0.7 else [ord(rnd.choice(alpha)) for _ in range(rnd.randint(1, 9))]
            if rnd.random() < 0.3:
                v = w[:rnd.randint(1, len(w))]
            if not v:
                continue
            c.op(op="gate", r=w, q=v, qfin=rnd.random() < 0.4, **({"lang": rnd.choice(LANGS)} if k % 3 else {}))
        cases.append(c)
    # a long-lived thread: many hundreds of gate calls on one thread-local instance, the same few pairs coming back after
    # 250-260 and 510-520 other calls (stamps and counters kept in a byte come round)
    for rep, probe in enumerate([("bob", "bob"), ("bob", "bib"), ("obo", "bob")] if tier == "quick" else [("bob", "bob"), ("bob", "bib"), ("obo", "bob"), ("bobo", "bob")] * 3):
        c = Case("C17", "gate-long-lived")
        pa, pb = [ord(x) for x in probe[0]], [ord(x) for x in probe[1]]
        filler = [([ord(x) for x in a], [ord(x) for x in b2]) for a, b2 in (("did", "ddi"), ("idi", "did"), ("did", "did"))]   # no letter of the probe
        # the probe comes back after every distance from 250 to 260 calls, and once after about twice that
        for gap in list(range(249, 260)) + [rnd.randint(505, 515)]:
            c.op(op="gate", r=pa, q=pb, qfin=True)
            for _k in range(gap):
                a, b2 = rnd.choice(filler)
                c.op(op="gate", r=a, q=b2, qfin=True)
        c.op(op="gate", r=pa, q=pb, qfin=True)
        cases.append(c)
    return cases


def gen_family_cases(prop, lang, rnd, ncases):
    """C07 (C06, C10): a family of titles around one stem - the stem, the stem behind an extra leading vowel, the same with a
    tail that makes the word longer than the distance matrix's initial capacity (so the thread's matrix grows in the
    middle of a search), a near namesake - asked with typo'd spellings, in every insertion order and pairwise"""
    cases = []
    letters = script_letters(lang)
    vowels = [ch for ch in letters if ch in "aeiouаеиоу"] or letters[:3]
    cons = [ch for ch in letters if ch not in vowels] or letters
    for k in range(ncases):
        stem = rnd.choice(cons) + "".join(rnd.choice(letters) for _ in range(rnd.randint(5, 8)))
        v = rnd.choice(vowels)
        tail = "".join(rnd.choice(letters) for _ in range(rnd.randint(21 - len(stem), 30 - len(stem))))
        other = "".join(rnd.choice(letters) for _ in range(3))
        titles = [v + stem, v + stem + tail, stem, v + stem[:3] + other, v + stem + tail[:1]]    # the last: 'garden' / 'gardens'
        if k % 2:
            titles = [t + " " + rnd.choice(["x", "kit", "set"]) for t in titles]
        rnd.shuffle(titles)
        rt = distinct_ratings(rnd, len(titles))
        full = v + stem
        i = rnd.randrange(2, len(full))
        qs = [full[:4], full[:i] + full[i + 1:], full, full[:i] + full[i:i + 1] + full[i:], stem[:4], v + stem[1:],
              full[:-1] + tail[:1] + full[-1:],           # the longer namesake with its last two letters swapped ('gardesn')
              full[:-2] + full[-1:] + full[-2:-1]]
        n = len(titles)
        for q in rnd.sample(qs, 4):
            # one query per case: every case runs on a thread of its own, so the matrix grows during this very search
            c = Case(prop, "family", lang=lang)
            sid = c.new_store(lang)
            for i2, t in enumerate(titles):
                c.add(sid, 100 + i2, t, rt[i2])
            want, kw = ["qtok", "singles", "unlimited"], {}
            if prop == "C07":
                want = ["qtok", "pairs"]
                perms = [list(reversed(range(n)))]
                for _p in range(3):
                    o = list(range(n))
                    rnd.shuffle(o)
                    perms.append(o)
                kw = dict(max_pairs=6, perms=perms)
            elif prop == "C10":
                want = ["qtok", "fresh"]
            c.search(sid, q, want=want, **kw)
            cases.append(c)
    return cases


def gen_same_title_cases(prop, lang, rnd, titles):
    """C07 (C06): more records than the limit carry the very same title (or differ in letter case only), with distinct
    ratings; the title itself, a prefix and a word of it are asked for in several insertion orders"""
    cases = []
    for _k in range(2):
        t = rnd.choice([x for x in titles if 1 <= len(x.split()) <= 3 and x.strip()] or ["metal mailbox"])
        limit = rnd.choice([1, 2, 3])
        n = limit + rnd.randint(1, 3)
        recs = [rnd.choice([t, t, t.upper(), t.lower(), t.title()]) for _ in range(n)]
        rt = distinct_ratings(rnd, n)
        c = Case(prop, "same-title", lang=lang)
        sid = c.new_store(lang, limit=limit)
        for i, x in enumerate(recs):
            c.add(sid, 100 + i, x, rt[i])
        perms = [list(reversed(range(n)))]
        for _p in range(3):
            o = list(range(n))
            rnd.shuffle(o)
            perms.append(o)
        for q in (t, t[:max(1, len(t) // 2)], t.split()[0]):
            if prop == "C07":
                c.search(sid, q, want=["qtok", "pairs"], max_pairs=6, perms=perms)
            else:
                c.search(sid, q, want=["qtok", "singles", "unlimited"])
        cases.append(c)
    return cases


def gen_long_word_cases(prop, lang, rnd, ncases):
    """C19 / C01: record words longer than the initial matrix capacity of 20, first met by a short unfinished query on
    a matrix that has never grown (every case starts on a fresh thread), then by longer and finished queries, then short
    words again"""
    cases = []
    letters = script_letters(lang)
    fixed = ["counterrevolutionaries", "donaudampfschifffahrtsgesellschaft", "electroencephalography", "pneumonoultramicroscopicsilicovolcanoconiosis"]
    for k in range(ncases):
        w = rnd.choice(fixed) if k % 2 == 0 else rand_word(rnd, letters, rnd.choice([21, 22, 23, 30, 36, 50, 70]), 80)[:rnd.choice([21, 22, 23, 30, 36, 50, 70])]
        c = Case(prop, "long-word", lang=lang)
        sid = c.new_store(lang)
        c.add(sid, 1, "Erste " + w + " Wien", 1)
        c.add(sid, 2, w[:8] + " kurz", 2)
        plan = [w[:rnd.randint(3, 12)], w[:rnd.randint(13, 20)], "x" + w[:6], w[:len(w) - 1], w, w + " ", w[:5] + " ", w[:4], w[1:15], w[:18] + "q"]
        if k % 3 == 0:
            rnd.shuffle(plan)
        for q in plan:
            c.search(sid, q)
        cases.append(c)
    # neighbours that only together exceed the initial capacity: every single word fits (at most 20 characters) while the
    # joined pair the matcher also tries (record side and query side) does not; first searches of a never-grown thread
    for k in range(ncases):
        w20 = rand_word(rnd, letters, 17, 20)
        w3 = rand_word(rnd, letters, 2, 4)
        c = Case(prop, "long-joined", lang=lang)
        sid = c.new_store(lang)
        c.add(sid, 1, w3 + " " + w20, 1)
        c.add(sid, 2, w20 + rnd.choice([" ", "-"]) + w3, 2)
        c.add(sid, 3, w20, 3)
        cut = rnd.randint(8, len(w20) - 3)
        plan = ["x" + (w3 + w20)[:rnd.randint(6, 10)], w3 + w20, w20[:cut] + " " + w20[cut:], w20 + w3, (w3 + w20)[:19], w20[:cut] + " " + w20[cut:] + " "]
        rnd.shuffle(plan)
        for q in plan:
            c.search(sid, q)
        cases.append(c)
    return cases
