"""What each property's check runs: bounded model checking of the specification (L1), generation of cases,
replay on the real code, trace validation (L2 + L3), verdict and evidence."""
import unicodedata, json, os, random, hashlib, time, shutil, subprocess
from concurrent.futures import ThreadPoolExecutor

from .common import *      # noqa
from . import gen

EVID = os.environ.get("LSV_EVIDENCE_DIR", os.path.join(VERIF, "evidence"))
KNOWN = os.path.join(VERIF, "known_findings.json")


# ------------------------------------------------------------------------------------------------ pools
def build_pools(ck, tier, rnd, langs=gen.LANGS, tag="x"):
    """titles per language and their public tokenisation (obtained from the real tokeniser)"""
    ncorp = 250 if tier == "quick" else 3285
    corp = [r[1] for r in (rnd.sample(gen.CORPUS, ncorp) if ncorp < len(gen.CORPUS) else gen.CORPUS)]
    pools = {}
    pairs = []
    for lang in langs:
        if lang in ("en", "none"):
            ts = corp
        else:
            ts = gen.WORDS["titles"][lang]
        # Every regime of titles keeps a fixed share of the pool however many regimes there are (a pool drawn from uniformly
        # would dilute each regime with every regime added later): the entries of a regime are repeated cyclically up to
        # its share of a nominal pool of 400.
        base = list(ts)
        reg = {"base": list(base), "case": [], "nfd": [], "table": [], "function": [], "special": list(gen.SPECIAL_TITLES)}
        # titles containing the language's longer function words (they are matched like any other word)
        fws = [text(w["w"]) for w in gen.LANGTAB[lang]["function_words"] if len(w["w"]) >= 5]
        rnd.shuffle(fws)
        reg["base"] += [fw + " " + rnd.choice(base).split(" ")[0] for fw in fws[:8] if base] + [rnd.choice(base).split(" ")[0] + " " + fw for fw in fws[8:12] if base]
        # the same titles as shops write them: ALL CAPS and Capitalised Words (the reduce tables are consulted before
        # lower-casing, so the upper-case rows of every table are behaviour of their own)
        accented = [t for t in base if any(ord(ch) > 127 for ch in t)] or base
        for t in rnd.sample(accented, min(len(accented), 12)) + rnd.sample(base, min(len(base), 6)):
            reg["case"].append(gen.upper_title(t, rnd))
            reg["case"].append(" ".join(w[:1].upper() + w[1:] for w in t.split(" ")))
        # the same titles typed on a keyboard that sends accents as separate combining marks (Unicode NFD, which is wider
        # than the language's own composition table), fully and letter by letter; accented special titles as well (also
        # letters foreign to the language: café in a German catalogue)
        for t in rnd.sample(accented, min(len(accented), 12)):
            nfd = unicodedata.normalize("NFD", t)
            if nfd != t:
                reg["nfd"].append(nfd)
                reg["nfd"].append("".join(unicodedata.normalize("NFD", ch) if rnd.random() < 0.5 else ch for ch in t))
        for t in gen.SPECIAL_TITLES:
            nfd = unicodedata.normalize("NFD", t)
            if nfd != t:
                reg["nfd"] += [nfd, nfd + " bar"]
        # titles around single rows of the language's tables
        tab = gen.LANGTAB[lang]
        rows = [a for a, b in tab["reduce"]] + [b for a, b in tab["compose"]]
        for a in rnd.sample(rows, min(len(rows), 12)):
            reg["table"].append(text(a) + rnd.choice(["ngel", "ltima", "rbol"]) + " " + rnd.choice(base).split(" ")[0])
        # titles made of function words only ("The Who", "Der Die Das") and of one-letter words only ("U.S.A.", "Q & A")
        fw_all = [text(w["w"]) for w in gen.LANGTAB[lang]["function_words"] if " " not in text(w["w"])]
        for _k in range(5 if fw_all else 0):
            ws_ = rnd.sample(fw_all, min(len(fw_all), rnd.randint(2, 4)))
            reg["function"].append(" ".join(w.capitalize() if rnd.random() < 0.5 else w for w in ws_) + rnd.choice(["", "", "!", "?", "."]))
        sl = gen.script_letters(lang)
        reg["function"] += [".".join(rnd.sample(sl, 3)).upper() + ".", rnd.choice(sl).upper() + " & " + rnd.choice(sl).upper()]
        share = {"base": 0.30, "special": 0.25, "case": 0.15, "nfd": 0.12, "table": 0.08, "function": 0.10}
        ts = []
        for name in ("base", "special", "case", "nfd", "table", "function"):
            items = reg[name]
            if items:
                rnd.shuffle(items)
                ts += [items[i % len(items)] for i in range(int(share[name] * 400))]
        pools[lang] = list(ts)
        pairs += [(lang, t) for t in sorted(set(ts))]
        pairs += [(lang, t) for t in gen.ADVERSARIAL]
        pairs += [(lang, t) for t in gen.SPECIAL_TITLES if t not in ts]
        # single words as titles (exact-prefix clause)
    d = os.path.join(OUT, "work", "pre_%s_%d" % (tag, os.getpid()))       # private to this run: checks may run side by side
    os.makedirs(d, exist_ok=True)
    write_script(os.path.join(d, "tok.script"), gen.tok_script(pairs))
    r = replay(ck, os.path.join(d, "tok.script"), os.path.join(d, "tok.trace"))
    if r:
        raise ToolError("tokeniser pre-pass did not finish: %s" % r)
    toks = gen.toks_from_trace(read_ndjson(os.path.join(d, "tok.trace")))
    shutil.rmtree(d, ignore_errors=True)
    return pools, toks


def more_toks(ck, toks, pairs, tag="pre2"):
    d = os.path.join(OUT, "work", "%s_%d" % (tag, os.getpid()))
    os.makedirs(d, exist_ok=True)
    write_script(os.path.join(d, "tok.script"), gen.tok_script(pairs))
    r = replay(ck, os.path.join(d, "tok.script"), os.path.join(d, "tok.trace"))
    if r:
        raise ToolError("tokeniser pre-pass did not finish: %s" % r)
    toks.update(gen.toks_from_trace(read_ndjson(os.path.join(d, "tok.trace"))))
    shutil.rmtree(d, ignore_errors=True)


# ------------------------------------------------------------------------------------------------ replay + TV
_RUN_WORK = None


def run_work_dir():
    """scratch directory of this process (scripts and traces of every leg); removed when the process ends"""
    global _RUN_WORK
    if _RUN_WORK is None:
        import atexit
        _RUN_WORK = os.path.join(OUT, "work", "run_%d" % os.getpid())
        shutil.rmtree(_RUN_WORK, ignore_errors=True)
        os.makedirs(_RUN_WORK)
        atexit.register(lambda: shutil.rmtree(_RUN_WORK, ignore_errors=True))
    return _RUN_WORK


def shard_cases(cases, nshards):
    shards = [[] for _ in range(nshards)]
    for i, c in enumerate(cases):
        shards[i % nshards].append(c)
    return [s for s in shards if s]


def dedup_case(c):
    """drops searches of a case that repeat an earlier one in the same store state (keeps counts honest)"""
    seen = set()
    out = []
    epoch = 0
    for op in c.ops:
        if op.get("op") in ("add", "clear", "limit", "markers", "new"):
            epoch += 1
        if op.get("op") == "search" and not op.get("rep"):
            k = (epoch, json.dumps(op, sort_keys=True))
            if k in seen:
                continue
            seen.add(k)
        out.append(op)
    c.ops = out
    return c


def sample_stage(cases, budget):
    """asks for the per-record matcher/scorer output (`stage`) on a sample of searches in small stores: those events
    are validated against the full pipeline specification (WordMatch / TextMatch / Score / Highlight .tla)"""
    cands = []
    for c in cases:
        nrec = 0
        for op in c.ops:
            if op.get("op") == "add":
                nrec += 1
            elif op.get("op") in ("clear", "new"):
                nrec = 0
            elif op.get("op") == "search" and nrec <= 8 and len(op.get("q", [])) <= 24:
                cands.append(op)
    if not cands or budget <= 0:
        return 0
    step = max(1, len(cands) // budget)
    n = 0
    for op in cands[::step][:budget]:
        if "stage" not in op["want"]:
            op["want"] = list(op["want"]) + ["stage"]
        n += 1
    return n


def run_cases(prop, cases, ck, sh=None, spec="TV_Store", nshards=None, budget_ms=20000, stage_budget=0):
    """replays the cases on the real code (in parallel), validates every trace with TLC, returns the merged result"""
    work = os.path.join(run_work_dir(), prop)        # private to this process: checks may run side by side
    shutil.rmtree(work, ignore_errors=True)
    os.makedirs(work)
    cases = [dedup_case(c) for c in cases]
    nstage = sample_stage(cases, stage_budget) if spec == "TV_Store" else 0
    nshards = nshards or max(1, min(14, len(cases)))
    shards = shard_cases(cases, nshards)
    scripts, traces = [], []
    for i, sc in enumerate(shards):
        ops = []
        for c in sc:
            ops += c.ops
        p = os.path.join(work, "s%02d.script" % i)
        write_script(p, ops)
        scripts.append(p)
        traces.append(os.path.join(work, "s%02d.trace" % i))
    t0 = time.time()
    anomalies = []

    def one(i):
        r = replay(ck, scripts[i], traces[i], budget_ms)
        if r:
            return (i, r)
        if sh:
            tship = traces[i] + ".ship"
            r2 = replay(sh, scripts[i], tship, budget_ms)
            if r2:
                return (i, dict(r2, build="shipping"))
            merge_ship(traces[i], tship, traces[i] + ".m")
            os.replace(traces[i] + ".m", traces[i])
            os.remove(tship)
        return None

    with ThreadPoolExecutor(max_workers=min(14, len(shards))) as ex:
        for r in ex.map(one, range(len(shards))):
            if r:
                anomalies.append(r)
    t_replay = time.time() - t0
    # a hang or a death of the process under test is data (C01), located by bisecting to the case
    hang_findings = []
    good = []
    for i in range(len(shards)):
        bad = [a for a in anomalies if a[0] == i]
        if bad:
            hang_findings.append(dict(shard=i, what=bad[0][1], script=scripts[i]))
        else:
            good.append(i)
    t0 = time.time()
    results = tv_many(spec, [traces[i] for i in good], prop)
    t_tv = time.time() - t0
    merged = dict(events=0, viol=[], drift=[], cnt={}, states=0, transitions=0, traces=len(good),
                  t_replay=t_replay, t_tv=t_tv, hangs=hang_findings, scripts=scripts, traces_paths=traces)
    for gi, r in zip(good, results):
        merged["events"] += r["events"]
        merged["states"] += r["states"]
        merged["transitions"] += r["transitions"]
        for v in r["viol"]:
            v["shard"] = gi
            merged["viol"].append(v)
        for v in r["drift"]:
            v["shard"] = gi
            merged["drift"].append(v)
        for k, n in r["cnt"].items():
            merged["cnt"][k] = merged["cnt"].get(k, 0) + n
    nsearch = sum(1 for c in cases for op in c.ops if op.get("op") in ("search", "prepare", "tok", "dl", "jac", "lsort", "wm", "tm") or op.get("op", "").startswith("r_"))
    sigs = set()
    for c in cases:
        state = []
        for op in c.ops:
            o = op.get("op")
            if o in ("add", "clear", "limit", "markers", "new", "r_create", "r_destroy", "r_add", "r_limit", "r_markers", "r_clear"):
                state.append(json.dumps(op, sort_keys=True))
            elif o != "case":
                h = hashlib.sha1(("|".join(state) + "#" + json.dumps(op, sort_keys=True)).encode()).hexdigest()
                sigs.add(h)
    merged["stage_sampled"] = nstage
    merged["evaluations"] = nsearch
    merged["distinct"] = len(sigs)
    merged["cases"] = len(cases)
    return merged


def merge_into(merged, m2):
    """adds the result of a second replay+validation run (other trace spec / other cases) to `merged`"""
    for k in ("events", "states", "transitions", "traces", "evaluations", "distinct", "cases", "t_replay", "t_tv"):
        merged[k] += m2[k]
    off = len(merged["traces_paths"])
    for v in m2["viol"]:
        v["shard"] += off
    for v in m2["drift"]:
        v["shard"] += off
    merged["viol"] += m2["viol"]
    merged["drift"] += m2["drift"]
    merged["hangs"] += m2["hangs"]
    merged["scripts"] += m2["scripts"]
    merged["traces_paths"] += m2["traces_paths"]
    merged["stage_sampled"] = merged.get("stage_sampled", 0) + m2.get("stage_sampled", 0)
    merged["tlc_generated_cases"] = merged.get("tlc_generated_cases", 0) + m2.get("tlc_generated_cases", 0)
    for k, n in m2["cnt"].items():
        merged["cnt"][k] = merged["cnt"].get(k, 0) + n
    return merged


def tlc_generated_tm_cases(tier):
    """cases enumerated by TLC from the bounded model (GEN_TextMatch.tla), wrapped as `tm` operations"""
    rows = tlc_generate("GEN_TextMatch", "GEN_TextMatch_q.cfg" if tier == "quick" else "GEN_TextMatch_t.cfg", "gen_tm_" + tier)
    cases = []
    chunk = 400
    for i in range(0, len(rows), chunk):
        c = gen.Case("GEN", "tm")
        for r in rows[i:i + chunk]:
            r = dict(r)
            r["op"] = "tm"
            c.ops.append(r)
        cases.append(c)
    return cases, len(rows)


STORE_TITLES = {
    "none": {1: "alpha", 2: "beta", 3: "alpha beta"}, "en": {1: "metal", 2: "mailbox", 3: "metal mailbox"},
    "de": {1: "Straße", 2: "Größe", 3: "Straße Größe"}, "fr": {1: "café", 2: "œuf", 3: "café œuf"},
    "es": {1: "niño", 2: "árbol", 3: "niño árbol"}, "pt": {1: "pão", 2: "maçã", 3: "pão maçã"},
    "ru": {1: "ёлка", 2: "мёд", 3: "ёлка мёд"},
}


def tlc_generated_store_cases(tier):
    """all histories of the bounded Store machine's operation alphabet (GEN_Store.tla), concretised per language"""
    rows = tlc_generate("GEN_Store", "GEN_Store_q.cfg" if tier == "quick" else "GEN_Store_t.cfg", "gen_store_" + tier)
    cases = []
    for k, row in enumerate(rows):
        lang = gen.LANGS[k % len(gen.LANGS)]
        T = STORE_TITLES[lang]
        Q = {0: "", 1: T[1][:2], 2: T[2] + " " + T[1][:2]}
        c = gen.Case("C10", "tlc-history", lang=lang)
        sid = c.new_store(lang, markers=None)
        nid = 1
        for op in row["ops"]:
            if op["op"] == "add":
                c.add(sid, nid, T[op["t"]], op["rating"])
                nid += 1
            elif op["op"] == "clear":
                c.op(op="clear", sid=sid)
            elif op["op"] == "limit":
                c.op(op="limit", sid=sid, limit=op["n"])
            elif op["op"] == "markers":
                c.op(op="markers", sid=sid, l=gen.SENT_L, r=gen.SENT_R)
            else:
                c.search(sid, Q[op["q"]], want=["qtok", "fresh"], repeat=2)
        cases.append(c)
    return cases, len(rows)


def tlc_generated_wm_cases(tier):
    """word pairs with every stem, enumerated by TLC (GEN_WordMatch.tla), wrapped as `wm` operations"""
    rows = tlc_generate("GEN_WordMatch", "GEN_WordMatch_q.cfg" if tier == "quick" else "GEN_WordMatch_t.cfg", "gen_wm_" + tier)
    cases = []
    for i in range(0, len(rows), 500):
        c = gen.Case("GEN", "wm")
        for r in rows[i:i + 500]:
            r = dict(r)
            r["op"] = "wm"
            r["ri"] = 0
            r["qi"] = 0
            c.ops.append(r)
        cases.append(c)
    return cases, len(rows)


def tlc_generated_registry_cases(tier):
    """every valid call sequence of the bounded registry alphabet (GEN_Registry.tla), driven through lib.rs with a
    stand-alone Store per id in lock-step"""
    rows = tlc_generate("GEN_Registry", "GEN_Registry_q.cfg" if tier == "quick" else "GEN_Registry_t.cfg", "gen_reg_" + tier)
    cases = []
    for k, row in enumerate(rows):
        la = gen.LANGS[k % len(gen.LANGS)]
        lb = gen.LANGS[(k // len(gen.LANGS) + 1 + k) % len(gen.LANGS)]
        lang_of = {1: la, 2: lb}
        c = gen.Case("C20", "tlc-registry")
        nrid = 1
        for op in row["ops"]:
            i = op["id"]
            T = STORE_TITLES[lang_of[i]]
            if op["op"] == "create":
                c.op(op="r_create", id=i, lang=lang_of[i])
                c.op(op="new", sid=1000 + i, lang=lang_of[i])
            elif op["op"] == "destroy":
                c.op(op="r_destroy", id=i)
                c.op(op="drop", sid=1000 + i)
            elif op["op"] == "add":
                t = T[1] if op["t"] == 1 else T[3]
                c.op(op="r_add", id=i, rid=nrid, title=cps(t), rating=nrid % 3)
                c.op(op="add", sid=1000 + i, id=nrid, title=cps(t), rating=nrid % 3)
                nrid += 1
            elif op["op"] == "limit":
                c.op(op="r_limit", id=i, limit=op["n"])
                c.op(op="limit", sid=1000 + i, limit=op["n"])
            elif op["op"] == "markers":
                c.op(op="r_markers", id=i, l=gen.SENT_L, r=gen.SENT_R)
                c.op(op="markers", sid=1000 + i, l=gen.SENT_L, r=gen.SENT_R)
            else:
                q = "" if op["q"] == 0 else T[1][:2]
                c.search(1000 + i, q, tag="sa%d" % i, want=["qtok"], rep=1)
                c.op(op="r_search", id=i, q=cps(q))
        cases.append(c)
    return cases, len(rows)


# ------------------------------------------------------------------------------------------------ verdict
def load_known():
    if os.path.exists(KNOWN):
        return json.load(open(KNOWN))
    return {"findings": [], "fixed": []}


def case_ops_of(script_path, case_line):
    """ops of the case whose header is trace line `case_line` (trace line k+1 = script op k)"""
    ops = read_ndjson(script_path)
    start = case_line - 2
    out = [ops[start]]
    for op in ops[start + 1:]:
        if op.get("op") == "case":
            break
        out.append(op)
    return out


def matches_known(k, prop, v, ev, case_ops):
    if k.get("property") != prop:
        return False
    m = k.get("match", {})
    if "why" in m and m["why"] != v.get("why"):
        return False
    if "q" in m and ev.get("q") != m["q"]:
        return False
    if "titles" in m:
        titles = [op.get("title") for op in case_ops if op.get("op") in ("add", "r_add")]
        if sorted(map(json.dumps, titles)) != sorted(map(json.dumps, m["titles"])):
            return False
    return True


def verdict(prop, tier, seed, merged, l1, t0, level_extra=None, spec="TV_Store"):
    known = load_known()
    os.makedirs(os.path.join(OUT, "replay"), exist_ok=True)
    mine = [v for v in merged["viol"] if v["prop"] == prop]
    tool = [v for v in merged["viol"] if v["prop"] == "TOOL"]
    others = {}
    for v in merged["viol"]:
        if v["prop"] not in (prop, "TOOL"):
            others[v["prop"]] = others.get(v["prop"], 0) + 1
    if tool:
        raise ToolError("the harness misreported state: %s" % tool[0])
    out_lines = []
    new = []
    known_hits = {}
    for v in mine:
        trace = read_ndjson(merged["traces_paths"][v["shard"]])
        ev = trace[v["line"] - 1]
        cops = case_ops_of(merged["scripts"][v["shard"]], v["case"]) if v.get("case", 0) >= 2 else []
        hit = None
        for k in known["findings"]:
            if matches_known(k, prop, v, ev, cops):
                hit = k
                break
        if hit:
            known_hits[hit["id"]] = hit
        else:
            new.append((v, ev, cops))
    for v in merged.get("hangs", []) if prop == "C01" else []:
        new.append((dict(prop="C01", why="the process under test hung or died: %s" % json.dumps(v["what"]), line=0, case=0, shard=v["shard"]),
                    {}, read_ndjson(v["script"])))
    # C19: the standard library's own debug precondition on `get_unchecked(_mut)` ends the process (an abort, not a panic)
    # when an unchecked site that carries no hook of ours is indexed out of range - that is an observation of exactly what
    # C19 forbids, made by the run time instead of the recorder
    ub = [v for v in merged.get("hangs", []) if "died" in v["what"] and "unsafe precondition" in v["what"].get("stderr", "")]
    if prop == "C19":
        for v in ub:
            new.append((dict(prop="C19", why="the process under test was stopped by the run time: %s" % v["what"].get("stderr", "")[-300:].strip(),
                             line=0, case=0, shard=v["shard"]), {}, read_ndjson(v["script"])))
    # a death that is no finding of this property makes the run a tool error - unless the shards that did finish already
    # showed a violation of the property, which is then reported
    if prop != "C01" and not new and [v for v in merged.get("hangs", []) if not (prop == "C19" and v in ub)]:
        raise ToolError("the process under test hung or died while checking %s: %s" % (prop, merged["hangs"][0]["what"]))
    for k in known_hits.values():
        out_lines.append("KNOWN-FINDING: property=%s %s" % (prop, k.get("what", k["id"])))
    code = 0
    replay_path = None
    if new:
        v, ev, cops = new[0]
        replay_path = os.path.join(OUT, "replay", "%s_%s_%d.json" % (prop, tier, seed))
        json.dump(dict(property=prop, why=v["why"], spec=spec, event=ev, case=cops, line=v["line"],
                       n_violations=len(new)), open(replay_path, "w"))
        out_lines.append("VIOLATION property=%s replay=%s" % (prop, replay_path))
        log("first violation: %s | event %s" % (v["why"], json.dumps(ev)[:600]))
        code = 1
    for lr in l1:
        if lr.get("violated") and not lr.get("expect_violation"):
            replay_path = os.path.join(OUT, "replay", "%s_%s_l1_%s.txt" % (prop, tier, lr["cfg"]))
            open(replay_path, "w").write(lr.get("out", "counterexample not kept (cached result); delete out/l1-cache to reproduce"))
            out_lines.append("VIOLATION property=%s replay=%s" % (prop, replay_path))
            code = 1
    nontrivial = merged["cnt"].get(prop, 0)
    if nontrivial == 0 and code == 0:
        raise ToolError("vacuous run: no non-trivial evaluation of %s" % prop)
    dup = merged["evaluations"] - merged["distinct"]
    samples = []
    try:
        tr = read_ndjson(merged["traces_paths"][0])
        for e in tr:
            if e.get("op") not in ("header", "case", "new", "markers", "limit", "chartable") and len(samples) < 3:
                samples.append(json.loads(json.dumps(e)[:1500]) if len(json.dumps(e)) <= 1500 else {k: e[k] for k in list(e)[:6]})
    except Exception:
        pass
    ev = {
        "property_id": prop, "tier": tier, "seed": seed, "level": "model_checking",
        "coverage": {
            "states": sum(x["states"] for x in l1) + merged["states"],
            "transitions": sum(x["transitions"] for x in l1) + merged["transitions"],
            "traces_validated_against_impl": merged["traces"],
            "samples": samples or [{"note": "no event sample"}],
            "evaluations": merged["evaluations"],
            "distinct_nontrivial": max(0, nontrivial - dup),
            "rule": "evaluations = calls replayed on the real code (one recorded event each); non-trivial = events on which this "
                    "property's predicate was evaluated with its domain precondition true (counted by TLC while validating the traces: %d); "
                    "distinct = unique (preceding state-changing calls, call) pairs among the generated cases (%d of %d); the reported "
                    "number is the non-trivial count minus every duplicate" % (nontrivial, merged["distinct"], merged["evaluations"]),
            "l1_model_checking": [{k: x[k] for k in ("module", "cfg", "states", "transitions", "ok", "cached", "wall_s") if k in x} for x in l1],
            "trace_events": merged["events"], "cases": merged["cases"],
            "predicate_evaluations_per_property": merged["cnt"],
            "drift_notes": len(merged["drift"]),
            "escalated_after_drift": bool(merged.get("escalated")),
            "pipeline_conformance_events": merged.get("stage_sampled", 0),
            "tlc_generated_cases_replayed": merged.get("tlc_generated_cases", 0),
            "violations_of_other_properties_seen": others,
            "exhaustive": False,
            "replay_s": round(merged["t_replay"], 1), "tv_s": round(merged["t_tv"], 1),
        },
        "assumptions": [
            "TLC and the CommunityModules evaluate the predicates of spec/Props*.tla correctly",
            "the harness copies inputs and outputs of the crate into the trace without interpretation (binding self-test: run.py selftest)",
            "Rust's Unicode tables, rust-stemmers and the standard library's run-time checks are trusted",
        ],
        "wall_s": round(time.time() - t0, 1),
        "violations": len(new),
    }
    if level_extra:
        ev["coverage"].update(level_extra)
    os.makedirs(EVID, exist_ok=True)
    json.dump(ev, open(os.path.join(EVID, prop + ".json"), "w"), indent=1)
    for d in merged["drift"][:5]:
        log("DRIFT %s" % json.dumps(d))
    if merged["drift"]:
        log("DRIFT: %d conformance differences between the code and the implementation-shaped specification" % len(merged["drift"]))
    for line in out_lines:
        print(line, flush=True)
    log("[%s %s] cases=%d events=%d nontrivial=%d viol=%d drift=%d others=%s wall=%.1fs" % (
        prop, tier, merged["cases"], merged["events"], nontrivial, len(new), len(merged["drift"]), others, time.time() - t0))
    return code


# ------------------------------------------------------------------------------------------------ L1 per property
L1 = {
    # property -> {tier -> [(module, cfg, workers)]}
    "C06": {"quick": [("MC_LimitSort", "MC_LimitSort.cfg", 8)], "thorough": [("MC_LimitSort", "MC_LimitSort_t.cfg", 14), ("MC_Store", "MC_Store_fixed.cfg", 12)]},
    "C01": {"quick": [("MC_TextMatch", "MC_TextMatch_arith_q.cfg", 12), ("MC_Store", "MC_Store_fixed.cfg", 12)],
            "thorough": [("MC_TextMatch", "MC_TextMatch_arith.cfg", 14), ("MC_WordMatch", "MC_WordMatch_c04.cfg", 14), ("MC_Store", "MC_Store_fixed_t.cfg", 14)]},
    "C02": {"quick": [("MC_Bridge", "MC_Bridge.cfg", 6)], "thorough": [("MC_Bridge", "MC_Bridge_t.cfg", 12)]},
    "C03": {"quick": [("MC_WordMatch", "MC_WordMatch_c03_q.cfg", 12)], "thorough": [("MC_WordMatch", "MC_WordMatch_c03_t.cfg", 14)]},
    "C04": {"quick": [("MC_WordMatch", "MC_WordMatch_c04_q.cfg", 12)], "thorough": [("MC_WordMatch", "MC_WordMatch_c04_t.cfg", 14)]},
    "C05": {"quick": [("MC_TextMatch", "MC_TextMatch_arith_q.cfg", 12)], "thorough": [("MC_TextMatch", "MC_TextMatch_arith.cfg", 14)]},
    "C09": {"quick": [("MC_TextMatch", "MC_TextMatch_joined_q.cfg", 12), ("MC_TextMatch", "MC_TextMatch_arith_q.cfg", 12)],
            "thorough": [("MC_TextMatch", "MC_TextMatch_joined.cfg", 14), ("MC_TextMatch", "MC_TextMatch_arith.cfg", 14)]},
    "C13": {"quick": [("MC_TextMatch", "MC_TextMatch_whole_q.cfg", 12)], "thorough": [("MC_TextMatch", "MC_TextMatch_whole.cfg", 14)]},
    "C14": {"quick": [("MC_TextMatch", "MC_TextMatch_split_q.cfg", 12), ("MC_TextMatch", "MC_TextMatch_joined_q.cfg", 12)],
            "thorough": [("MC_TextMatch", "MC_TextMatch_split.cfg", 14), ("MC_TextMatch", "MC_TextMatch_joined.cfg", 14)]},
    "C07": {"quick": [("MC_Store", "MC_Store_fixed.cfg", 12)], "thorough": [("MC_Store", "MC_Store_fixed_t.cfg", 14)]},
    "C08": {"quick": [("MC_Ranking", "MC_Ranking_%s.cfg" % sc, 6) for sc in ("exact_vs_typo", "short_vs_long", "position", "length")],
            "thorough": [("MC_Ranking", "MC_Ranking_%s.cfg" % sc, 12) for sc in ("exact_vs_typo", "both_vs_one", "short_vs_long", "word_order", "position", "length", "function")]},
    "C11": {"quick": [("MC_Tokenize", "MC_Tokenize_fr_q.cfg", 10)], "thorough": [("MC_Tokenize", "MC_Tokenize_%s.cfg" % l, 14) for l in ("de", "fr", "ru")]},
    "C15": {"quick": [("MC_Tokenize", "MC_Tokenize_de_q.cfg", 10), ("MC_Tokenize", "MC_Tokenize_ru_q.cfg", 10)],
            "thorough": [("MC_Tokenize", "MC_Tokenize_%s.cfg" % l, 14) for l in ("de", "fr", "ru")]},
    "C10": {"quick": [("MC_Store", "MC_Store_fixed.cfg", 12)], "thorough": [("MC_Store", "MC_Store_fixed_t.cfg", 14)]},
    "C12": {"quick": [("MC_Store", "MC_Store_fixed.cfg", 12)], "thorough": [("MC_Store", "MC_Store_fixed_t.cfg", 14)]},
    "C18": {"quick": [("MC_Index", "MC_Index.cfg", 8)], "thorough": [("MC_Index", "MC_Index_t.cfg", 14)]},
    "C20": {"quick": [("MC_Registry", "MC_Registry.cfg", 12), ("MC_System", "MC_System.cfg", 12)],
            "thorough": [("MC_Registry", "MC_Registry_t.cfg", 14), ("MC_System", "MC_System_t.cfg", 14)]},
    "C16": {"quick": [("MC_DamLev", "MC_DamLev.cfg", 12), ("MC_DamLev", "MC_DamLev_hist.cfg", 12)],
            "thorough": [("MC_DamLev", "MC_DamLev_t.cfg", 14), ("MC_DamLev", "MC_DamLev_hist_t.cfg", 14)]},
    "C17": {"quick": [("MC_Jaccard", "MC_Jaccard.cfg", 12), ("MC_Jaccard", "MC_Jaccard_set.cfg", 12)],
            "thorough": [("MC_Jaccard", "MC_Jaccard_t.cfg", 14), ("MC_Jaccard", "MC_Jaccard_set.cfg", 12)]},
    "C19": {"quick": [("MC_DamLev", "MC_DamLev_hist.cfg", 12), ("MC_Jaccard", "MC_Jaccard.cfg", 12), ("MC_Index", "MC_Index.cfg", 8)],
            "thorough": [("MC_DamLev", "MC_DamLev_hist_t.cfg", 14), ("MC_Jaccard", "MC_Jaccard_t.cfg", 14)]},
}


def run_l1(prop, tier):
    out = []
    if tier == "thorough" and prop in ("C18", "C19"):
        # unbounded number of adds: the index invariant (positions below len, posting lists increasing) by induction
        r = apalache_inductive(os.path.join(SPEC, "apalache", "IndexInd.tla"))
        log("[L1] apalache IndexInd inductive ok=%s %.0fs" % (r["ok"], r["wall_s"]))
        out.append(r)
    if tier == "thorough" and prop in ("C06", "C12"):
        # unbounded number of offered items: the chunked top-k machine never cuts away anything better than what it keeps
        r = apalache_inductive(os.path.join(SPEC, "apalache", "LimitSortInd.tla"))
        log("[L1] apalache LimitSortInd inductive ok=%s %.0fs" % (r["ok"], r["wall_s"]))
        out.append(r)
    if tier == "thorough" and prop in ("C01", "C10", "C18"):
        # add / clear / search histories of any length: the index counts exactly the held records, postings are positions of held
        # records containing the gram, candidate positions index `records`
        r = apalache_inductive(os.path.join(SPEC, "apalache", "StoreIndexInd.tla"))
        log("[L1] apalache StoreIndexInd inductive ok=%s %.0fs" % (r["ok"], r["wall_s"]))
        out.append(r)
    if tier == "thorough" and prop in ("C19", "C16"):
        # calls of any number with words of any length: every matrix access stays inside the dimension and the flat buffer
        r = apalache_inductive(os.path.join(SPEC, "apalache", "MatrixInd.tla"), cinit=None)
        log("[L1] apalache MatrixInd inductive ok=%s %.0fs" % (r["ok"], r["wall_s"]))
        out.append(r)
    if tier == "thorough" and prop in ("C10", "C12"):
        # histories of any length: a cached top-rated list is a top list of the records held now, for the limit it was made with
        r = apalache_inductive(os.path.join(SPEC, "apalache", "StoreCacheInd.tla"))
        log("[L1] apalache StoreCacheInd inductive ok=%s %.0fs" % (r["ok"], r["wall_s"]))
        out.append(r)
    for module, cfg, workers in L1.get(prop, {}).get(tier, []):
        r = mc_cached(module, cfg, "%s_%s" % (prop, cfg.replace(".cfg", "")), workers=workers, timeout=3000)
        log("[L1] %s/%s states=%d ok=%s cached=%s %.0fs" % (module, cfg, r["states"], r["ok"], r.get("cached"), r.get("wall_s", 0)))
        out.append(r)
    return out


# ------------------------------------------------------------------------------------------------ plans
SCALE = 1      # raised for the escalation run that follows a quick run with conformance drift


def sizes(tier, quick, thorough):
    return quick * SCALE if tier == "quick" else thorough


def cases_for(prop, tier, seed, pools, toks, ck):
    rnd = random.Random(seed * 1000003 + int(prop[1:]))
    cases = []
    L = gen.LANGS
    per = lambda q, t: sizes(tier, q, t)
    heavy = lambda q, t: q if tier == "quick" else t        # families that are not multiplied when a quick run is widened
    if prop == "C03":
        for lang in L:
            cases += gen.gen_prefix_cases(lang, rnd, pools[lang], toks, per(14, 400))
            # a title of a dozen words (more grams and more word characters than any record of the bundled data set)
            longs = [" ".join(rnd.sample(pools[lang], 9))[:196].rstrip() for _k in range(heavy(1, 8))]
            more_toks(ck, toks, [(lang, t) for t in longs], "pre_c03")
            cases += gen.gen_prefix_cases(lang, rnd, longs, toks, len(longs))
        cases += gen.gen_huge_store_cases("C03", rnd.choice(L), rnd, pools["en"], heavy(1, 6))
        cases += gen.gen_long_lived_store_cases("C03", L[seed % len(L)], rnd)
    elif prop == "C04":
        for lang in L:
            bw = gen.three_letter_words(lang, rnd, per(3, 40)) + gen.run_words(lang, rnd, per(3, 30))
            # title words in scripts other than the language's own (place and brand names): the edits that only rearrange or
            # drop the word's own letters stay inside the property's domain whatever the language
            bw += rnd.sample(gen.FOREIGN_SCRIPT_TITLES, heavy(3, len(gen.FOREIGN_SCRIPT_TITLES)))
            # titles of a dozen words (listings with the whole description in the title): far more grams than any record of
            # the bundled data set has
            for _k in range(heavy(2, 20)):
                bw.append(" ".join(rnd.sample(pools[lang], 8))[:190].rstrip())
            more_toks(ck, toks, [(lang, t) for t in bw], "pre_c04")
            cases += gen.gen_edit_cases(lang, rnd, pools[lang], toks, per(6, 150), per_pos=per(1, 3), extra=bw)
        cases += gen.gen_huge_store_cases("C04", rnd.choice(L), rnd, pools["en"], heavy(1, 6))
    elif prop == "C13":
        for lang in L:
            echo = gen.compound_echo_titles(rnd, pools[lang], per(8, 60))
            more_toks(ck, toks, [(lang, t) for t in echo], "pre_c13")
            cases += gen.gen_whole_pair_cases(lang, rnd, pools[lang], toks, per(60, 1500), extra=echo)
            # titles of a dozen words (far more grams than any record of the bundled data set), in three arrangements: as drawn;
            # between two words spelled with the last letters of the alphabet only (all their grams sort after everything
            # else in the title); between two words spelled with the first letters only
            longs = []
            sl = sorted(gen.script_letters(lang))
            for k in range(heavy(3, 12)):
                ws = [w for w in " ".join(rnd.sample(pools[lang], 8)).split(" ") if w][:12]
                if len(sl) >= 12 and k % 3:
                    ab = sl[-6:] if k % 3 == 1 else sl[:6]
                    ws = [gen.rand_word(rnd, ab, 5, 6)] + ws[:11] + [gen.rand_word(rnd, ab, 5, 6)]
                longs.append(" ".join(ws)[:190].rstrip())
            more_toks(ck, toks, [(lang, t) for t in longs], "pre_c13l")
            cases += gen.gen_whole_pair_cases(lang, rnd, pools[lang], toks, 0, targets=longs)
            # titles made of two-letter words only (sizes, codes, initials): one first letter that is a vowel and one that is
            # a consonant, each followed by every letter of the script in turn; alone and doubled ("xs", "xs xs")
            sl = gen.script_letters(lang)
            cls = dict((chr(c), k) for c, k in gen.LANGTAB[lang]["classes"]) if lang != "none" else {}
            firsts = [rnd.choice([ch for ch in sl if cls.get(ch, "C") == k] or sl) for k in ("V", "C")]
            shorts = [f + y if (i + j) % 2 else f + y + " " + f + y for i, f in enumerate(firsts) for j, y in enumerate(sl)]
            more_toks(ck, toks, [(lang, t) for t in shorts], "pre_c13s")
            cases += gen.gen_whole_pair_cases(lang, rnd, pools[lang], toks, 0, targets=shorts)
    elif prop == "C14":
        for lang in L:
            cases += gen.gen_split_join_cases(lang, rnd, pools[lang], toks, per(20, 500))
    elif prop == "C05":
        for lang in L:
            cs, words = gen.gen_exact_prefix_cases(lang, rnd, pools[lang], toks, 0)
            more_toks(ck, toks, [(lang, w) for w in words], "pre_c05")
            cs, _ = gen.gen_exact_prefix_cases(lang, rnd, pools[lang], toks, per(12, 300))
            cases += cs
            cases += gen.gen_span_cases(lang, rnd, pools[lang], toks, per(8, 200))
            cases += gen.gen_store_relations("C05", lang, rnd, pools[lang], toks, per(4, 100))
            cases += gen.gen_histories("C05", lang, rnd, pools[lang] + gen.ADVERSARIAL, toks, per(9, 150), length=12, adversarial=True)
        cases += gen.gen_registry_cases(rnd, per(15, 400), pools, toks, length=per(30, 50))
        cases += gen.gen_long_lived_store_cases("C05", L[seed % len(L)], rnd)
    elif prop == "C06":
        for lang in L:
            cases += gen.gen_store_relations("C06", lang, rnd, pools[lang], toks, per(4, 120))
            cases += gen.gen_store_relations("C06", lang, rnd, pools[lang], toks, per(1, 30), big=True)
            cases += gen.gen_family_cases("C06", lang, rnd, per(2, 40))
        cases += gen.gen_huge_store_cases("C06", rnd.choice(L), rnd, pools["en"], heavy(1, 6))
        cases += gen.gen_long_lived_store_cases("C06", L[seed % len(L)], rnd)
    elif prop == "C07":
        for lang in L:
            cases += gen.gen_store_relations("C07", lang, rnd, pools[lang], toks, per(4, 120))
            cases += gen.gen_store_relations("C07", lang, rnd, pools[lang], toks, per(1, 20), big=True)
            cases += gen.gen_vocab_cases("C07", lang, rnd, pools[lang], toks, per(120, 1500))
            cases += gen.gen_family_cases("C07", lang, rnd, per(6, 100))
            cases += gen.gen_same_title_cases("C07", lang, rnd, pools[lang])
        cases += gen.gen_huge_store_cases("C07", rnd.choice(L), rnd, pools["en"], heavy(1, 6))
    elif prop in ("C10", "C12"):
        for lang in L:
            cases += gen.gen_histories(prop, lang, rnd, pools[lang], toks, per(12, 400), length=per(14, 24))
            if prop == "C10":
                cases += gen.gen_family_cases("C10", lang, rnd, per(3, 60))
                cases += gen.gen_two_store_cases("C10", lang, rnd, pools[lang])
                if lang == L[seed % len(L)]:
                    cases += gen.gen_long_lived_store_cases("C10", lang, rnd)
            if prop == "C12":
                cases += gen.gen_symbol_query_cases("C12", lang, rnd, pools[lang])
        # the same statement through the top-level API (lib.rs), with a stand-alone store in lock-step
        cases += gen.gen_registry_cases(rnd, per(20, 600), pools, toks, length=per(30, 50))
    elif prop == "C01":
        for lang in L:
            cases += gen.gen_histories("C01", lang, rnd, pools[lang], toks, per(10, 300), length=per(16, 30), adversarial=True)
            cases += gen.gen_joined_boundary_cases(lang, rnd, pools[lang], toks, per(6, 200))
            cases += gen.gen_long_title_cases(lang, rnd)
            cases += gen.gen_long_word_cases("C01", lang, rnd, per(3, 60))
        # the same through the top-level API (lib.rs is part of what must not panic)
        cases += gen.gen_registry_cases(rnd, per(20, 600), pools, toks, length=per(30, 50))
    elif prop in ("C02", "C09"):
        for lang in L:
            cases += gen.gen_marker_cases(lang, rnd, pools[lang], toks, per(10, 300))
            cases += gen.gen_markup_cases(lang, rnd, pools[lang], toks, per(6, 200))
            cases += gen.gen_table_store_cases(lang, rnd, prop)
            cases += gen.gen_histories(prop, lang, rnd, pools[lang], toks, per(3, 100), length=12, adversarial=True)
        cases += gen.gen_registry_cases(rnd, per(25, 300), pools, toks, length=per(30, 50))
    elif prop == "C18":
        for lang in L:
            cases += gen.gen_prepare_cases(lang, rnd, pools[lang], toks, per(8, 250))
    elif prop == "C20":
        cases += gen.gen_registry_cases(rnd, per(40, 1200), pools, toks, length=per(30, 50))
    elif prop == "C08":
        for lang in L:
            cases += gen.gen_ranking_cases(lang, rnd, per(10, 300))
    elif prop == "C11":
        for lang in L:
            cases += gen.gen_variant_cases(lang, rnd, pools[lang], toks, per(8, 250))
            cases += gen.gen_table_store_cases(lang, rnd, "C11")
    else:
        raise ToolError("no plan for %s" % prop)
    if prop in ("C03", "C13", "C14"):
        # the special shapes (every regime the seeding rounds taught us) are not left to the draw: each special title is
        # taken once in the language it belongs to and once in a language that rotates with the seed
        fam = {"C03": gen.gen_prefix_cases, "C13": gen.gen_whole_pair_cases, "C14": gen.gen_split_join_cases}[prop]
        by_lang = {}
        for i, t in enumerate(gen.SPECIAL_TITLES):
            if t.strip():
                by_lang.setdefault(gen.natural_lang(t), []).append(t)
                by_lang.setdefault(L[(i + seed) % len(L)], []).append(t)
        for lang, ts_ in sorted(by_lang.items()):
            cases += fam(lang, rnd, pools[lang], toks, 0, targets=ts_)
    if prop in ("C03", "C04", "C05", "C06", "C08", "C13", "C14"):
        # a share of the cases is asked a second time through the top-level API (lib.rs): what a user of the library gets
        # ... half of them next to an id of another language (preferably a stemming one next to a non-stemming one and vice
        # versa) that is asked every input first
        def other_lang(c):
            lg = c.ops[0].get("lang")
            return rnd.choice([None, None, "en" if lg != "en" else "none", "en" if lg != "en" else "de", rnd.choice(gen.LANGS)])
        share = 0.3 if prop == "C14" else 0.2
        api = [gen.via_registry(c, foreign=other_lang(c))
               for c in cases if rnd.random() < share and sum(1 for o in c.ops if o.get("op") == "add") <= 60]
        cases += [c for c in api if c is not None]
    return cases


def run_property(prop, tier, seed):
    t0 = time.time()
    if prop in EXTRA_PLANS:
        return EXTRA_PLANS[prop](prop, tier, seed, t0)
    ck = build("checked")
    sh = build("shipping") if prop == "C01" else None
    l1 = run_l1(prop, tier)
    rnd = random.Random(seed)
    pools, toks = build_pools(ck, tier, rnd)
    cases = cases_for(prop, tier, seed, pools, toks, ck)
    merged = run_cases(prop, cases, ck, sh, stage_budget=sizes(tier, 200, 4000))
    mine = [v for v in merged["viol"] if v["prop"] == prop]
    if merged["drift"] and not mine and tier == "quick":
        # the code no longer follows the implementation-shaped specification (L2 drift) although this property's predicate
        # held on everything replayed so far: the bounded-model results do not transfer, so the replayed enumeration is
        # widened (other seed, five times the cases) before deciding (DESIGN.md 3.4, item 5)
        global SCALE
        log("[escalate] %d drift notes and no violation of %s yet: widening the replayed enumeration" % (len(merged["drift"]), prop))
        SCALE = 5
        try:
            more = cases_for(prop, tier, seed + 7777, pools, toks, ck)
        finally:
            SCALE = 1
        m2 = run_cases(prop + "x", more, ck, sh, stage_budget=600)
        merge_into(merged, m2)
        merged["escalated"] = True
    if prop == "C06":
        # the bounded selection itself (utils/limitsort.rs), driven directly: random inputs and input lengths at exact
        # multiples of the limit, stable and unstable; judged against LimitSort.tla's IsTopK (TV_Comp)
        m2 = run_cases(prop + "c", gen.gen_lsort_cases(random.Random(seed * 31 + 6), tier), ck, None, spec="TV_Comp")
        merge_into(merged, m2)
    if prop in ("C03", "C04"):
        # specification -> implementation at word level: every word pair of the bounded model with every stem
        gc, n = tlc_generated_wm_cases(tier)
        m2 = run_cases(prop + "g", gc, ck, None, spec="TV_Comp")
        m2["tlc_generated_cases"] = n
        merge_into(merged, m2)
    if prop == "C20":
        gc, n = tlc_generated_registry_cases(tier)
        m2 = run_cases(prop + "g", gc, ck, None, spec="TV_Store")
        m2["tlc_generated_cases"] = n
        merge_into(merged, m2)
    if prop in ("C10", "C12"):
        # specification -> implementation: every history of the bounded Store machine, replayed on a real Store
        gc, n = tlc_generated_store_cases(tier)
        m2 = run_cases(prop + "g", gc, ck, None, spec="TV_Store")
        m2["tlc_generated_cases"] = n
        merge_into(merged, m2)
    if prop in ("C01", "C05", "C09"):
        # specification -> implementation: literal texts enumerated by TLC from the bounded model, run through the real
        # text_match / score / highlight and compared field by field with the specification (TV_Comp)
        gc, n = tlc_generated_tm_cases(tier)
        m2 = run_cases(prop + "g", gc, ck, None, spec="TV_Comp")
        m2["tlc_generated_cases"] = n
        merge_into(merged, m2)
    return verdict(prop, tier, seed, merged, l1, t0)


def plan_components(prop, tier, seed, t0):
    """C15, C16, C17, C19: component-level traces validated by TV_Comp (C19 also store-level searches)"""
    ck = build("checked")
    l1 = run_l1(prop, tier)
    rnd = random.Random(seed * 7919 + int(prop[1:]))
    cases = []
    if prop == "C15":
        pools, toks = build_pools(ck, tier, random.Random(seed))
        cases = gen.gen_tok_cases(rnd, tier, pools)
        cases += gen.gen_unicode_sweep(rnd, tier)
        for lang in gen.LANGS:
            cases += gen.gen_table_cases(lang, rnd)
    if prop in ("C16", "C19"):
        cases += gen.gen_dl_cases(rnd, tier)
        cases += gen.gen_wm_long_cases(rnd, tier)
    if prop in ("C17", "C19"):
        cases += gen.gen_jac_cases(rnd, tier)
        cases += gen.gen_gate_cases(rnd, tier)
    merged = run_cases(prop, cases, ck, None, spec="TV_Comp")
    if prop == "C19":
        # full searches and index preparation on real stores, long and short inputs alternating
        pools, toks = build_pools(ck, tier, random.Random(seed))
        sc = []
        for lang in gen.LANGS:
            sc += gen.gen_histories("C19", lang, rnd, pools[lang] + gen.ADVERSARIAL, toks, sizes(tier, 5, 150), length=16, adversarial=True)
            sc += gen.gen_long_word_cases("C19", lang, rnd, sizes(tier, 4, 80))
            sc += gen.gen_two_store_cases("C19", lang, rnd, pools[lang])
        m2 = run_cases(prop + "s", sc, ck, None, spec="TV_Store")
        merge_into(merged, m2)
    return verdict(prop, tier, seed, merged, l1, t0, spec="TV_Comp")


EXTRA_PLANS = {"C15": plan_components, "C16": plan_components, "C17": plan_components, "C19": plan_components}


def setup():
    build("checked")
    build("shipping")
    bad = 0
    for f in sorted(os.listdir(SPEC)):
        if f.endswith(".tla"):
            p = subprocess.run(["java", "-cp", JARS, "tla2sany.SANY", f], cwd=SPEC, stdout=subprocess.PIPE, stderr=subprocess.STDOUT, text=True)
            if "Semantic errors" in p.stdout or "Parse Error" in p.stdout or p.returncode != 0:
                log("SANY failed on %s\n%s" % (f, p.stdout[-1500:]))
                bad += 1
    if bad:
        return 2
    log("setup ok")
    return 0


def replay_file(path):
    r = json.load(open(path))
    ck = build("checked")
    c = gen.Case("x", "x")
    c.ops = r["case"]
    sh = build("shipping") if r["property"] == "C01" else None
    merged = run_cases("replay", [c], ck, sh, spec=r.get("spec", "TV_Store"))
    mine = [v for v in merged["viol"] if v["prop"] == r["property"]]
    for v in mine:
        print("VIOLATION property=%s replay=%s  (%s)" % (r["property"], path, v["why"]))
    if not mine:
        print("not reproduced")
    return 1 if mine else 0


def selftest():
    from . import selftest as st
    return st.run()
