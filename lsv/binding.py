"""Binding layer (rust/wasm/src/lib.rs + javascript/src/index.js) against spec/Binding.tla.

  python3 run.py binding [--seed N] [--cases N]

Three steps: TLC checks the lemmas of Binding.tla on a bounded universe (MC_Binding); scripted uses of the LucidSuggest
class are run (a) through the real glue functions, compiled natively (harness_glue; `#[wasm_bindgen]` is the identity there),
and (b) through the real index.js under node with the wasm module replaced by a stub that logs the calls and answers with
what (a) returned; TLC validates the merged trace against Binding.tla (TV_Binding).  No listed property lives in this layer,
so nothing is registered in MANIFEST.json for it; C02's "no NUL in a returned title" is the one obligation the wire format
puts on the core, and it is re-evaluated here on every result that crosses the glue.
"""
import json, os, random, shutil, subprocess, sys, time

from .common import *      # noqa
from . import gen

GLUE = os.path.join(VERIF, "harness_glue")
JSRUN = os.path.join(VERIF, "harness_js", "run.mjs")

TITLES = ["hello world", "help{{ me", "a}}b", "{{", "{x}", "x{", "}}}", "", " ", "metal detector", "Große Straße", "t-shirt xl",
          "emoji \U0001F600 mug", "nul\u0000inside", "{{{nested}}}", "wi-fi router", "a", "[brackets]", "tab\there"]


def build_glue():
    repo = os.environ.get("LSV_REPO_OVERRIDE", "/repo")
    d = GLUE
    if repo != "/repo":
        d = os.path.join(OUT, "harness_glue_ovr")
        shutil.rmtree(d, ignore_errors=True)
        shutil.copytree(GLUE, d, ignore=shutil.ignore_patterns("target"))
        for f in ("Cargo.toml", "src/main.rs"):
            p = os.path.join(d, f)
            open(p, "w").write(open(os.path.join(GLUE, f)).read().replace("/repo/", repo + "/"))
    r = subprocess.run(["cargo", "build", "--release", "--offline"], cwd=d, stdout=subprocess.PIPE, stderr=subprocess.STDOUT, text=True)
    if r.returncode != 0:
        raise ToolError("glue harness does not build:\n" + r.stdout[-2000:])
    return os.path.join(d, "target", "release", "lsv-glue"), repo


def gen_cases(rnd, n, pools):
    cases = []
    for k in range(n):
        mode = ("await", "burst", "mixed")[k % 3]      # mixed: some calls awaited, others left pending while the next is issued
        ninst = rnd.choice([1, 1, 2, 3])
        ops = []
        live = []
        for i in range(1, ninst + 1):
            ops.append(dict(op="new", inst=i))
            live.append(i)
            if rnd.random() < 0.5:
                break
        nid = 1
        added = {i: [] for i in range(1, ninst + 1)}
        for _ in range(rnd.randint(2, 12)):
            if len([o for o in ops if o["op"] == "new"]) < ninst and rnd.random() < 0.3:
                i = len([o for o in ops if o["op"] == "new"]) + 1
                ops.append(dict(op="new", inst=i))
                live.append(i)
                continue
            if not live:
                break
            i = rnd.choice(live)
            r = rnd.random()
            if r < 0.4:
                recs = []
                for _k in range(rnd.randint(0, 4)):
                    t = rnd.choice(TITLES) if rnd.random() < 0.5 else rnd.choice(pools[rnd.choice(gen.LANGS)])
                    rec = dict(id=(rnd.choice(added[i])["id"] if added[i] and rnd.random() < 0.1 else nid), title=cps(t))
                    nid += 1
                    if rnd.random() < 0.7:
                        rec["rating"] = rnd.randint(0, 1000)
                    recs.append(rec)
                    added[i].append(rec)
                ops.append(dict(op="addRecords", inst=i, records=recs))
            elif r < 0.5:
                ops.append(dict(op="setLimit", inst=i, limit=rnd.choice([0, 1, 2, 10, 11, 25])))
            elif r < 0.95:
                if added[i] and rnd.random() < 0.8:
                    t = text(rnd.choice(added[i])["title"])
                    ws = [w for w in t.replace("{", " ").replace("}", " ").split() if w]
                    q = rnd.choice(ws)[:rnd.randint(1, 6)] if ws and rnd.random() < 0.8 else t
                else:
                    q = rnd.choice(["", "", " ", "{", "}}", "zz"])
                ops.append(dict(op="search", inst=i, q=cps(q)))
            else:
                ops.append(dict(op="destroy", inst=i))
                live.remove(i)
        if mode == "mixed":
            for o in ops:
                o["aw"] = rnd.random() < 0.5
        cases.append(dict(case=k + 1, mode=mode, ops=ops))
    return cases


def run(argv):
    seed, ncases = 1, 300
    for a in argv:
        if a.startswith("--seed"):
            seed = int(a.split("=")[1]) if "=" in a else seed
        if a.startswith("--cases="):
            ncases = int(a.split("=")[1])
    t0 = time.time()
    l1 = mc_cached("MC_Binding", "MC_Binding.cfg", "mc_binding", workers=4, timeout=600)
    log("[L1] MC_Binding states=%s ok=%s" % (l1.get("states"), l1.get("ok")))
    if not l1.get("ok"):
        print("binding: lemma check failed")
        return 1
    # the set-up queue of index.js: as written it violates Fifo (TLC must find the counterexample), without the re-pointing
    # line it satisfies it
    q_code = mc_cached("JsQueue", "MC_JsQueue_code.cfg", "mc_jsq_code", workers=4, timeout=600, expect_violation=True)
    q_fix = mc_cached("JsQueue", "MC_JsQueue_noreset.cfg", "mc_jsq_fix", workers=4, timeout=600)
    log("[L1] JsQueue as written: Fifo violated=%s; without the re-pointing line: ok=%s states=%s" % (q_code.get("violated"), q_fix.get("ok"), q_fix.get("states")))
    if not q_code.get("violated") or not q_fix.get("ok"):
        print("binding: the queue model no longer behaves as documented")
        return 1
    glue, repo = build_glue()
    work = os.path.join(OUT, "work", "binding_%d" % os.getpid())
    shutil.rmtree(work, ignore_errors=True)
    os.makedirs(work)
    rnd = random.Random(seed)
    pools = {l: (gen.WORDS["titles"][l] if l not in ("en", "none") else [r[1] for r in rnd.sample(gen.CORPUS, 60)]) for l in gen.LANGS}
    cases = gen_cases(rnd, ncases, pools)
    sp, gp, jp, tp = [os.path.join(work, x) for x in ("script.ndjson", "glue.ndjson", "js.ndjson", "trace.ndjson")]
    with open(sp, "w") as f:
        for c in cases:
            f.write(json.dumps(c) + "\n")
    r = subprocess.run([glue, sp, gp], stdout=subprocess.PIPE, stderr=subprocess.STDOUT, text=True, timeout=600)
    if r.returncode != 0:
        raise ToolError("glue pass failed: " + r.stdout[-1000:])
    r = subprocess.run(["node", JSRUN, os.path.join(repo, "javascript", "src", "index.js"), sp, gp, jp, os.path.join(work, "js")],
                       stdout=subprocess.PIPE, stderr=subprocess.STDOUT, text=True, timeout=600)
    if r.returncode != 0:
        raise ToolError("node pass failed: " + r.stdout[-1000:])
    G = {e["case"]: e for e in read_ndjson(gp)}
    J = {e["case"]: e for e in read_ndjson(jp)}
    unhandled = 0
    thrown = {}
    brace_chunks = 0
    with open(tp, "w") as f:
        for c in cases:
            g, j = G.get(c["case"], {}), J.get(c["case"], {})
            ev = dict(op="bind", case=c["case"], mode=c["mode"], script=c["ops"])
            if "panic" in g:
                ev["panic"] = g["panic"]
            else:
                ev["glue"] = g.get("searches", [])
                if "calls" in j:
                    ev["calls"], ev["outs"] = j["calls"], j["outs"]
                    unhandled += j.get("unhandled", 0)
                    for o in j["outs"]:
                        if o.get("throws"):
                            thrown[o["throws"]] = thrown.get(o["throws"], 0) + 1
                        brace_chunks += sum(1 for h in o.get("hits", []) if len(h["chunks"]) > 2)
            f.write(json.dumps(ev) + "\n")
    res = tv_many("TV_Binding", [tp], "binding")[0]
    rep = dict(seed=seed, cases=len(cases), counts=res.get("cnt"), findings=res["viol"][:20], n_findings=len(res["viol"]),
               unhandled_rejections=unhandled, searches_that_threw=thrown, hits_with_more_than_two_chunks=brace_chunks, l1=l1, wall_s=round(time.time() - t0, 1))
    with open(os.path.join(OUT, "binding_report.json"), "w") as f:
        json.dump(rep, f, indent=1)
    log("[binding] cases=%d searches=%s calls=%s findings=%d wall=%.1fs" % (len(cases), res["cnt"]["searches"], res["cnt"]["calls"], len(res["viol"]), time.time() - t0))
    for v in res["viol"][:5]:
        log("  finding: %s %s (case line %s)" % (v["prop"], v["why"], v["line"]))
    if not res["viol"]:
        shutil.rmtree(work, ignore_errors=True)
    known = {k["id"]: k for k in json.load(open(os.path.join(VERIF, "known_findings.json"))).get("binding", [])}
    unknown = [v for v in res["viol"] if v["prop"] not in known]
    for kid in sorted({v["prop"] for v in res["viol"] if v["prop"] in known}):
        print("KNOWN-FINDING: property=%s %s" % (kid, known[kid]["what"][:160]))
    return 0 if not unknown else 1
