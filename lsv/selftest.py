"""Binding self-test (DESIGN.md section 10): a clean recording of the real crate is accepted; corrupting one recorded
field per event kind makes the trace specifications report exactly the expected property (or conformance drift);
removing a field the specification needs makes the validation fail as a tool error instead of passing.

  python3 run.py selftest
"""
import copy, json, os, random, shutil

from .common import *      # noqa
from . import gen


def _script():
    c = gen.Case("SELFTEST", "store")
    sid = c.new_store("de")
    c.add(sid, 7, "Große Straße", 5)
    c.add(sid, 8, "metal detector", 3)
    c.add(sid, 9, "t-shirt xl", 9)
    c.search(sid, "stras", want=["qtok", "fresh", "singles", "unlimited", "stage"])
    c.search(sid, "", want=["qtok", "fresh"])
    c.op(op="prepare", sid=sid, q=cps("metal"), size=1)
    c.op(op="r_create", id=1, lang="en")
    c.op(op="new", sid=1001, lang="en")
    c.op(op="r_add", id=1, rid=4, title=cps("hello world"), rating=1)
    c.op(op="add", sid=1001, id=4, title=cps("hello world"), rating=1)
    c.search(1001, "hel", tag="sa1")
    c.op(op="r_search", id=1, q=cps("hel"))
    d = gen.Case("SELFTEST", "comp")
    d.op(op="dlnew", inst=1)
    d.ops.append(gen.dl_op(1, "kitten", "sitting", lambda ch: "V" if ch in "aeiou" else "C"))
    d.op(op="jacnew", inst=1)
    d.op(op="jac", inst=1, a=cps("hello"), b=cps("help"))
    d.op(op="lsort", items=[[3, 1], [1, 2], [2, 3], [1, 4]], limit=2)
    d.op(op="tok", lang="de", text=cps("Größe-X ist"), kind="q")
    return c, d


def _find(events, op, nth=0):
    k = [i for i, e in enumerate(events) if e.get("op") == op]
    return k[nth]


def run():
    ck = build("checked")
    work = os.path.join(OUT, "work", "selftest")
    shutil.rmtree(work, ignore_errors=True)
    os.makedirs(work)
    c, d = _script()
    results = []
    for name, case, spec in (("store", c, "TV_Store"), ("comp", d, "TV_Comp")):
        sp = os.path.join(work, name + ".script")
        tp = os.path.join(work, name + ".trace")
        write_script(sp, case.ops)
        r = replay(ck, sp, tp)
        if r:
            raise ToolError("selftest replay failed: %s" % r)
        clean = read_ndjson(tp)
        res = tv_many(spec, [tp], "selftest_" + name)[0]
        ok = not res["viol"] and not res["drift"]
        results.append(("clean " + name + " trace accepted", ok, ""))

        def variant(label, mutate, expect_prop=None, expect_drift=False, expect_reject=False):
            ev = copy.deepcopy(clean)
            mutate(ev)
            p = os.path.join(work, "%s_%s.trace" % (name, label.replace(" ", "_")))
            with open(p, "w") as f:
                for e in ev:
                    f.write(json.dumps(e) + "\n")
            try:
                r = tv_many(spec, [p], "selftest_v")[0]
            except ToolError as e:
                results.append((label, expect_reject, "rejected as tool error" if expect_reject else "unexpected tool error: %s" % str(e)[:200]))
                return
            props = sorted({v["prop"] for v in r["viol"]})
            good = (not expect_reject) and (expect_prop is None or expect_prop in props) and (not expect_drift or len(r["drift"]) > 0)
            results.append((label, good, "viol=%s drift=%d" % (props, len(r["drift"]))))

        if name == "store":
            i = _find(clean, "search", 0)

            def hit_id(ev):
                ev[i]["hits"][0]["id"] = 12345
            variant("search: hit id replaced", hit_id, "C02")

            def span(ev):
                t = ev[i]["hits"][0]["title"]
                k = t.index(0xE001)
                t[k], t[k + 1] = t[k + 1], t[k]
            variant("search: closing marker moved one character", span, "C10")

            def span2(ev):
                for key in ("hits", "fresh_hits"):
                    t = ev[i][key][0]["title"]
                    k = t.index(0xE000)
                    t[k], t[k + 1] = t[k + 1], t[k]
                for sgl in ev[i]["singles"]:
                    for h in sgl["hits"]:
                        t = h["title"]
                        k = t.index(0xE000)
                        t[k], t[k + 1] = t[k + 1], t[k]
            variant("search: opening marker moved into the word (all copies)", span2, "C09")

            def nul(ev):
                ev[i]["hits"][0]["title"].append(0)
            variant("search: NUL appended to a returned title", nul, "C02")

            def stage(ev):
                ev[i]["stage"][0]["scores"]["v"][0] += 1
            variant("search: one score component changed (hook output)", stage, None, expect_drift=True)

            def proj(ev):
                j = _find(ev, "add", 1)
                ev[j]["proj"]["next_ix"] += 1
            variant("add: projected next_ix changed", proj, None, expect_drift=True)

            def tokw(ev):
                j = _find(ev, "add", 0)
                ev[j]["tok"]["words"][0]["stem"] = 99
            variant("add: stem of a word out of range", tokw, "C15")

            def empty(ev):
                j = _find(ev, "search", 1)
                ev[j]["hits"] = ev[j]["hits"][:-1]
            variant("empty query: one hit dropped", empty, "C12")

            def prep(ev):
                j = _find(ev, "prepare", 0)
                ev[j]["ixs"] = ev[j]["ixs"] + ev[j]["ixs"][:1]
            variant("prepare: a position listed twice", prep, "C18")

            def reg(ev):
                j = _find(ev, "r_search", 0)
                ev[j]["bufs"][0]["hits"] = []
            variant("run_search: result buffer emptied", reg, "C20")

            def panic(ev):
                ev[i]["panic"] = "synthetic"
                del ev[i]["hits"]
            variant("search: recorded as panicked", panic, "C01")

            def acc(ev):
                ev[i]["acc"]["matrix"]["max_col"] = ev[i]["acc"]["matrix"]["size"]
            variant("search: access recorder reports column = size", acc, "C19")

            def drop(ev):
                del ev[i]["proj"]["limit"]
            variant("search: a projected field removed", drop, expect_reject=True)
        else:
            def dl(ev):
                j = _find(ev, "dl")
                ev[j]["d_x2"] += 1
            variant("dl: distance changed", dl, None, expect_drift=True)

            def dl0(ev):
                j = _find(ev, "dl")
                ev[j]["d_x2"] = 0
            variant("dl: distance zero for different words", dl0, "C16")

            def jac(ev):
                j = _find(ev, "jac")
                ev[j]["p"] += 1
            variant("jac: numerator changed", jac, "C17")

            def ls(ev):
                j = _find(ev, "lsort")
                ev[j]["out"] = list(reversed(ev[j]["out"])) + [[0, 9]]
            variant("lsort: output extended", ls, "C06")

            def tok(ev):
                j = _find(ev, "tok")
                ev[j]["tok"]["words"][0]["e"] += 1
            variant("tok: word end moved onto a separator", tok, "C15")

            def tokc(ev):
                j = _find(ev, "tok")
                ev[j]["tok"]["classes"][0] = "V"
            variant("tok: one character class changed", tokc, None, expect_drift=True)

            def hook(ev):
                j = _find(ev, "dl")
                del ev[j]["acc"]["matrix"]["size"]
            variant("dl: hook field removed", hook, expect_reject=True)
    bad = 0
    for label, ok, info in results:
        print("%-62s %s  %s" % (label, "ok" if ok else "FAILED", info))
        bad += 0 if ok else 1
    print("selftest: %d checks, %d failed" % (len(results), bad))
    return 0 if bad == 0 else 2
