"""Plumbing shared by the checks: building the harness from /repo's working tree, replaying scripts on the
real code, running TLC (model checking and trace validation) and collecting what it printed."""
import json, os, re, subprocess, sys, time, hashlib, shutil

VERIF = os.path.dirname(os.path.dirname(os.path.abspath(__file__)))
SPEC = os.path.join(VERIF, "spec")
OUT = os.path.join(VERIF, "out")
HARNESS = os.path.join(VERIF, "harness")
JARS = "/opt/veriftools/tla/tla2tools.jar:/opt/veriftools/tla/CommunityModules-deps.jar"
GUARD = "lucid_suggest_verif"
NCPU = os.cpu_count() or 8


class ToolError(Exception):
    pass


def log(*a):
    print(*a, file=sys.stderr, flush=True)


def cps(s):
    return [ord(c) for c in s]


def text(c):
    return "".join(chr(x) for x in c)


# ------------------------------------------------------------------------------------------------ build
def _harness_dir():
    """The registered checks always build /verif/harness against /repo's working tree.  The seed tools may point the
    build at a scratch copy of the repository instead (LSV_REPO_OVERRIDE) so that /repo itself stays untouched: the
    harness sources are then mirrored into out/harness_ovr with the dependency path rewritten."""
    ovr = os.environ.get("LSV_REPO_OVERRIDE")
    if not ovr:
        return HARNESS
    d = os.path.join(OUT, "harness_ovr_" + hashlib.sha1(ovr.encode()).hexdigest()[:8])
    os.makedirs(os.path.join(d, "src"), exist_ok=True)
    os.makedirs(os.path.join(d, ".cargo"), exist_ok=True)
    for f in ("src/main.rs", "src/comp.rs", "Cargo.lock", ".cargo/config.toml"):
        shutil.copy(os.path.join(HARNESS, f), os.path.join(d, f))
    toml = open(os.path.join(HARNESS, "Cargo.toml")).read().replace('path = "/repo/rust/core"', 'path = "%s/rust/core"' % ovr)
    if not os.path.exists(os.path.join(d, "Cargo.toml")) or open(os.path.join(d, "Cargo.toml")).read() != toml:
        open(os.path.join(d, "Cargo.toml"), "w").write(toml)
    return d


def build(profile):
    """profile: 'checked' (hooks on, overflow + debug assertions) or 'shipping' (release, guard off)."""
    HARNESS = _harness_dir()
    env = dict(os.environ)
    env["CARGO_NET_OFFLINE"] = "true"
    if profile == "checked":
        env["RUSTFLAGS"] = "--cfg %s --check-cfg cfg(%s) -A warnings" % (GUARD, GUARD)
        cmd = ["cargo", "build", "--profile", "checked", "--offline", "--target-dir", "target/checked"]
        binp = os.path.join(HARNESS, "target/checked/checked/lsv-harness")
    else:
        env["RUSTFLAGS"] = "-A warnings -A unexpected_cfgs"
        cmd = ["cargo", "build", "--release", "--offline", "--target-dir", "target/shipping"]
        binp = os.path.join(HARNESS, "target/shipping/release/lsv-harness")
    t0 = time.time()
    p = subprocess.run(cmd, cwd=HARNESS, env=env, stdout=subprocess.PIPE, stderr=subprocess.STDOUT, text=True)
    if p.returncode != 0:
        log(p.stdout[-4000:])
        raise ToolError("cargo build (%s) failed" % profile)
    log("[build] %s %.1fs" % (profile, time.time() - t0))
    return binp


# ------------------------------------------------------------------------------------------------ replay
def write_script(path, ops):
    with open(path, "w") as f:
        for op in ops:
            f.write(json.dumps(op, separators=(",", ":")) + "\n")


def replay(binp, script, trace, budget_ms=20000):
    """Runs the harness. A hang of the code under test ends the process with exit code 3 and is data."""
    env = dict(os.environ)
    env["LSV_OP_BUDGET_MS"] = str(budget_ms)
    p = subprocess.run([binp, "replay", script, trace], env=env, stdout=subprocess.PIPE, stderr=subprocess.PIPE, text=True)
    if p.returncode == 3:
        return {"hang_at": int(open(trace + ".hang").read().strip())}
    if p.returncode != 0:
        # the process died (abort, signal): also data - the trace ends early
        return {"died": p.returncode, "stderr": p.stderr[-2000:]}
    return {}


def read_ndjson(path):
    out = []
    with open(path) as f:
        for line in f:
            line = line.strip()
            if line:
                out.append(json.loads(line))
    return out


def merge_ship(trace_checked, trace_ship, out_path):
    """Zips the shipping build's answers into the checked build's trace (field `ship`), event by event."""
    a = read_ndjson(trace_checked)
    b = read_ndjson(trace_ship)
    if len(a) != len(b):
        raise ToolError("checked and shipping traces have different lengths (%d vs %d)" % (len(a), len(b)))
    with open(out_path, "w") as f:
        for x, y in zip(a, b):
            if x.get("op") == "search" and y.get("op") == "search":
                ship = {}
                for k in ("hits", "panic", "skipped"):
                    if k in y:
                        ship[k] = y[k]
                if "skipped" not in ship:
                    x["ship"] = ship
            f.write(json.dumps(x, separators=(",", ":")) + "\n")


# ------------------------------------------------------------------------------------------------ TLC
def java_tlc(workers, heap="3g"):
    if workers == 1:
        return ["java", "-XX:+UseSerialGC", "-Xmx" + heap, "-Xss512m",
                "-Dtlc2.tool.queue.IStateQueue=StateDeque", "-cp", JARS, "tlc2.TLC"]
    return ["java", "-XX:+UseParallelGC", "-Xmx" + heap, "-Xss64m", "-cp", JARS, "tlc2.TLC"]


_TV = re.compile(r'<<"TV-RESULT", "(.*)">>\s*$')


def unescape_tla_string(s):
    return s.replace('\\"', '"').replace("\\\\", "\\")


def tv_start(spec, trace, tag, timeout=1800):
    """Starts one trace-validation JVM; returns a handle for tv_finish."""
    meta = os.path.join(OUT, "tlc", "%s_%d" % (tag, os.getpid()))
    shutil.rmtree(meta, ignore_errors=True)
    os.makedirs(meta, exist_ok=True)
    env = dict(os.environ)
    env["TRACE"] = os.path.abspath(trace)
    cmd = java_tlc(1) + ["-nowarning", "-workers", "1", "-metadir", meta, "-cleanup", "-noGenerateSpecTE",
                         "-config", spec + ".cfg", spec + ".tla"]
    logf = open(os.path.join(meta, "tlc.log"), "w")
    p = subprocess.Popen(cmd, cwd=SPEC, env=env, stdout=logf, stderr=subprocess.STDOUT, text=True)
    return {"p": p, "log": os.path.join(meta, "tlc.log"), "logf": logf, "trace": trace, "timeout": timeout, "t0": time.time(), "meta": meta}


def tv_finish(h):
    try:
        h["p"].wait(timeout=max(1, h["timeout"] - (time.time() - h["t0"])))
    except subprocess.TimeoutExpired:
        h["p"].kill()
        raise ToolError("TLC timed out on %s" % h["trace"])
    h["logf"].close()
    out = open(h["log"]).read()
    res = None
    for line in out.splitlines():
        m = _TV.search(line)
        if m:
            res = json.loads(unescape_tla_string(m.group(1)))
    consumed = "Model checking completed. No error has been found." in out
    if res is None or not consumed:
        tail = "\n".join(out.splitlines()[-40:])
        raise ToolError("trace validation did not consume %s (see %s)\n%s" % (h["trace"], h["log"], tail))
    res["wall_s"] = time.time() - h["t0"]
    m = re.search(r"(\d+) states generated, (\d+) distinct states found", out)
    res["states"] = int(m.group(2)) if m else 0
    res["transitions"] = int(m.group(1)) if m else 0
    shutil.rmtree(h["meta"], ignore_errors=True)
    return res


def tv_many(spec, traces, tag, timeout=1800, jobs=None):
    """Validates several traces with at most `jobs` JVMs at a time; returns the list of results."""
    jobs = jobs or max(1, min(14, NCPU - 2))
    results = [None] * len(traces)
    pending = list(enumerate(traces))
    running = []
    while pending or running:
        while pending and len(running) < jobs:
            i, tr = pending.pop(0)
            running.append((i, tv_start(spec, tr, "%s_%d" % (tag, i), timeout)))
        i, h = running.pop(0)
        results[i] = tv_finish(h)
    return results


_MC_STATES = re.compile(r"(\d+) states generated, (\d+) distinct states found")


def mc_run(module, cfg, tag, workers=8, timeout=1800, heap="8g", expect_violation=False):
    """Runs a bounded model-checking instance (L1). Returns dict(states, transitions, ok, out)."""
    meta = os.path.join(OUT, "tlc", "%s_%d" % (tag, os.getpid()))
    shutil.rmtree(meta, ignore_errors=True)
    os.makedirs(meta, exist_ok=True)
    cmd = java_tlc(workers, heap) + ["-nowarning", "-workers", str(workers), "-metadir", meta, "-cleanup",
                                     "-noGenerateSpecTE", "-config", cfg, module + ".tla"]
    t0 = time.time()
    try:
        p = subprocess.run(cmd, cwd=SPEC, stdout=subprocess.PIPE, stderr=subprocess.STDOUT, text=True, timeout=timeout)
    except subprocess.TimeoutExpired:
        raise ToolError("TLC timed out on %s/%s" % (module, cfg))
    out = p.stdout
    shutil.rmtree(meta, ignore_errors=True)
    m = None
    for m in _MC_STATES.finditer(out):
        pass
    ok = "Model checking completed. No error has been found." in out
    violated = "is violated" in out
    if not ok and not violated:
        raise ToolError("TLC failed on %s/%s:\n%s" % (module, cfg, "\n".join(out.splitlines()[-30:])))
    return {"module": module, "cfg": cfg, "ok": ok, "violated": violated,
            "states": int(m.group(2)) if m else 0, "transitions": int(m.group(1)) if m else 0,
            "wall_s": time.time() - t0, "out": out}


def sha_of(paths):
    h = hashlib.sha256()
    for p in sorted(paths):
        h.update(p.encode())
        h.update(open(p, "rb").read())
    return h.hexdigest()


def mc_cached(module, cfg, tag, **kw):
    """L1 results depend only on spec/; they are cached by the hash of the whole spec directory and the cfg."""
    files = [os.path.join(SPEC, f) for f in os.listdir(SPEC) if f.endswith(".tla")] + [os.path.join(SPEC, cfg)]
    key = sha_of(files)[:24] + "_" + cfg.replace(".cfg", "")
    cdir = os.path.join(OUT, "l1-cache")
    os.makedirs(cdir, exist_ok=True)
    cf = os.path.join(cdir, key + ".json")
    if os.path.exists(cf):
        r = json.load(open(cf))
        r["cached"] = True
        return r
    r = mc_run(module, cfg, tag, **kw)
    r.pop("out", None)
    r["cached"] = False
    tmp = cf + ".%d.tmp" % os.getpid()
    with open(tmp, "w") as f:
        json.dump(r, f)
    os.replace(tmp, cf)                 # atomic: another check may be reading the cache at this moment
    return r


def tlc_generate(module, cfg, tag, timeout=3000):
    """Runs a GEN_* module: TLC evaluates the module's ASSUMEs, which write the enumerated cases as ND-JSON to the
    file named by GEN_OUT. The result depends only on spec/, so it is cached by the hash of the specification."""
    files = [os.path.join(SPEC, f) for f in os.listdir(SPEC) if f.endswith(".tla")] + [os.path.join(SPEC, cfg)]
    key = sha_of(files)[:24] + "_" + cfg.replace(".cfg", "")
    cdir = os.path.join(OUT, "gen-cache")
    os.makedirs(cdir, exist_ok=True)
    outp = os.path.join(cdir, key + ".ndjson")
    if not os.path.exists(outp):
        meta = os.path.join(OUT, "tlc", "%s_%d" % (tag, os.getpid()))
        shutil.rmtree(meta, ignore_errors=True)
        os.makedirs(meta, exist_ok=True)
        env = dict(os.environ)
        tmp = "%s.%d.tmp" % (outp, os.getpid())
        env["GEN_OUT"] = tmp
        cmd = ["java", "-XX:+UseSerialGC", "-Xmx8g", "-Xss512m", "-cp", JARS, "tlc2.TLC", "-nowarning", "-workers", "1",
               "-metadir", meta, "-cleanup", "-noGenerateSpecTE", "-config", cfg, module + ".tla"]
        t0 = time.time()
        p = subprocess.run(cmd, cwd=SPEC, env=env, stdout=subprocess.PIPE, stderr=subprocess.STDOUT, text=True, timeout=timeout)
        shutil.rmtree(meta, ignore_errors=True)
        if "GEN-COUNT" not in p.stdout or not os.path.exists(tmp):
            raise ToolError("case generation failed (%s/%s):\n%s" % (module, cfg, p.stdout[-1500:]))
        os.replace(tmp, outp)
        log("[GEN] %s/%s %.0fs" % (module, cfg, time.time() - t0))
    return read_ndjson(outp)


def apalache_inductive(module_path, cinit="ConstInit", init="Init", ind_init="IndInit", inv="IndInv", timeout=1200):
    """Discharges an inductive invariant with Apalache: Init => Inv (length 0) and Inv /\ Next => Inv' (length 1 from an
    arbitrary state satisfying Inv). Returns an L1-style result record."""
    outd = os.path.join(OUT, "apalache_%d" % os.getpid())
    t0 = time.time()
    ok = True
    log_all = ""
    for args in (["--init=" + init, "--length=0"], ["--init=" + ind_init, "--length=1"]):
        cmd = ["apalache-mc", "check", "--out-dir=" + outd] + (["--cinit=" + cinit] if cinit else []) + ["--inv=" + inv] + args + [os.path.basename(module_path)]
        try:
            p = subprocess.run(cmd, cwd=os.path.dirname(module_path), stdout=subprocess.PIPE, stderr=subprocess.STDOUT, text=True, timeout=timeout)
        except subprocess.TimeoutExpired:
            raise ToolError("apalache timed out on %s" % module_path)
        log_all += p.stdout[-1500:]
        if "EXITCODE: OK" not in p.stdout:
            ok = False
    shutil.rmtree(outd, ignore_errors=True)
    return {"module": os.path.basename(module_path), "cfg": "apalache inductive (Init => Inv; Inv /\\ Next => Inv')", "ok": ok, "violated": not ok,
            "states": 2, "transitions": 2, "wall_s": time.time() - t0, "cached": False, "out": log_all}
