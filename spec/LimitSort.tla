----------------------------- MODULE LimitSort -----------------------------
(* utils/limitsort.rs: the bounded "top k" selection used by search, by the         *)
(* top-rated cache and by the trigram index.                                       *)
(*                                                                                  *)
(* Items are records with a field `key` (a sequence of integers); the comparator of *)
(* every call site is lexicographic order on such a key, smaller first:             *)
(*   search     key = negated score vector          (search/sort.rs)               *)
(*   top_ixs    key = <<-rating>> \o title chars    (search/mod.rs)                *)
(*   prepare    key = <<-count>>                    (store/trigram_index.rs)       *)
(* Both call sites that matter use the *unstable* sort: it is modelled as a        *)
(* nondeterministic choice among all orders that are sorted under the comparator.  *)
EXTENDS Base

KeyLeq(x, y)  == LexLeq(x.key, y.key)
KeyLess(x, y) == LexLess(x.key, y.key)
KeyEq(x, y)   == x.key = y.key

Sorted(s) == \A i \in 1..(Len(s) - 1) : KeyLeq(s[i], s[i + 1])

\* every arrangement of s that is sorted under the comparator (ties in any order)
RECURSIVE SortedPerms(_)
SortedPerms(s) ==
  IF s = <<>> THEN { <<>> }
  ELSE LET mins == { i \in DOMAIN s : \A j \in DOMAIN s : KeyLeq(s[i], s[j]) }
       IN UNION { { <<s[i]>> \o t : t \in SortedPerms(Without(s, i)) } : i \in mins }

\* the stable sort: the unique sorted arrangement that keeps the input order among ties
RECURSIVE StableSort(_)
StableSort(s) ==
  IF s = <<>> THEN <<>>
  ELSE LET i == CHOOSE i \in DOMAIN s : /\ \A j \in DOMAIN s : KeyLeq(s[i], s[j])
                                         /\ \A h \in 1..(i - 1) : ~KeyEq(s[i], s[h])
       IN <<s[i]>> \o StableSort(Without(s, i))

(* The machine: `buffer` collects pushed items; whenever it holds at least 2*limit  *)
(* items it is sorted and cut to `limit` (with limit = 0 every push is cut to       *)
(* nothing); at the end it is sorted and cut once more.                             *)
RECURSIVE Run(_, _, _, _)
Run(buffer, rest, limit, stable) ==
  LET sorts(b) == IF stable THEN { StableSort(b) } ELSE SortedPerms(b) IN
  IF rest = <<>> THEN { Take(s, limit) : s \in sorts(buffer) }
  ELSE LET b == Append(buffer, Head(rest)) IN
       IF Len(b) >= 2 * limit
         THEN UNION { Run(Take(s, limit), Tail(rest), limit, stable) : s \in sorts(b) }
         ELSE Run(b, Tail(rest), limit, stable)

Outcomes(items, limit)       == Run(<<>>, items, limit, FALSE)
StableOutcomes(items, limit) == Run(<<>>, items, limit, TRUE)

(* Reference: `out` is a list of the `limit` best of `items`: it has the right      *)
(* length, draws its elements from `items` without inventing or repeating any,     *)
(* is sorted, and nothing that was left out is strictly better than something kept. *)
IsTopK(out, items, limit) ==
  /\ Len(out) = Min2(limit, Len(items))
  /\ SubBag(out, items)
  /\ Sorted(out)
  /\ \A y \in SeqRange(items) : Count(out, y) < Count(items, y) =>
        \A x \in SeqRange(out) : ~KeyLess(y, x)

\* with pairwise distinct keys the result is unique: the sorted list cut to `limit`
DistinctKeys(items) == \A i, j \in DOMAIN items : i # j => items[i].key # items[j].key
=============================================================================
