SPECIFICATION Spec
CONSTANTS
  MaxLen = 3
INVARIANTS RoundTrip ThrowsOnEmpty ChunksOk
CHECK_DEADLOCK FALSE
