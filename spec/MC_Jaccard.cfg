SPECIFICATION Spec
CONSTANTS
  MaxLen = 3
  MaxCalls = 2
  NSym = 3
INVARIANTS TrueSimilarity InUnit Symmetric HistoryFree InBoundsAll
CHECK_DEADLOCK FALSE
