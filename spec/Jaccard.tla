------------------------------ MODULE Jaccard ------------------------------
(* matching/jaccard/mod.rs: similarity of the sets of distinct elements of two      *)
(* sequences.  The code copies both slices into reusable buffers, sorts and dedups  *)
(* them and merges them with two pointers using unchecked indexing.  The result is  *)
(* a pair [p, q] standing for the fraction p/q (the code divides in f64).           *)
EXTENDS Base

\* sort + dedup of a sequence of integers: the increasing sequence of its distinct elements
RECURSIVE SortedSet(_)
SortedSet(S) == IF S = {} THEN <<>>
                ELSE LET x == CHOOSE x \in S : \A y \in S : x <= y IN <<x>> \o SortedSet(S \ {x})
SortDedup(s) == SortedSet(SeqRange(s))

\* Jaccard::similarity buffers: resize to the slice's length (truncating or padding the leftover
\* with the default value), then copy the slice over all of it
Resize(buf, n) == IF n <= Len(buf) THEN SubSeq(buf, 1, n) ELSE buf \o [i \in 1..(n - Len(buf)) |-> 0]
Refill(buf, slice) == [i \in 1..Len(Resize(buf, Len(slice))) |-> slice[i]]

\* simple_similarity: the merge loop; returns [inter, union, acc] with acc the (index, length) pairs read
RECURSIVE Merge(_, _, _, _, _, _, _)
Merge(s1, s2, i1, i2, inter, union, acc) ==
  IF i1 < Len(s1) /\ i2 < Len(s2)
    THEN LET a == s1[i1 + 1]  b == s2[i2 + 1]
             acc2 == acc \cup { [site |-> 1, ix |-> i1, len |-> Len(s1)], [site |-> 2, ix |-> i2, len |-> Len(s2)] }
         IN IF a < b THEN Merge(s1, s2, i1 + 1, i2, inter, union + 1, acc2)
            ELSE IF a > b THEN Merge(s1, s2, i1, i2 + 1, inter, union + 1, acc2)
            ELSE Merge(s1, s2, i1 + 1, i2 + 1, inter + 1, union + 1, acc2)
    ELSE [inter |-> inter, union |-> union + (Len(s1) - i1) + (Len(s2) - i2), acc |-> acc]

\* one call on the buffer machine [set1, set2]: new buffers, the fraction, the accesses
JacStep(bufs, a, b) ==
  IF Len(a) = 0 /\ Len(b) = 0 THEN [bufs |-> bufs, p |-> 1, q |-> 1, acc |-> {}]
  ELSE IF Len(a) = 0 \/ Len(b) = 0 THEN [bufs |-> bufs, p |-> 0, q |-> 1, acc |-> {}]
  ELSE LET s1 == SortDedup(Refill(bufs.set1, a))
           s2 == SortDedup(Refill(bufs.set2, b))
           m  == Merge(s1, s2, 0, 0, 0, 0, {})
       IN [bufs |-> [set1 |-> s1, set2 |-> s2], p |-> m.inter, q |-> m.union, acc |-> m.acc]

Similarity(a, b) == LET r == JacStep([set1 |-> <<>>, set2 |-> <<>>], a, b) IN [p |-> r.p, q |-> r.q]

\* reference: |A \cap B| / |A \cup B| on the sets of distinct elements (1 for two empty sequences)
RefInter(a, b) == Cardinality(SeqRange(a) \cap SeqRange(b))
RefUnion(a, b) == Cardinality(SeqRange(a) \cup SeqRange(b))
SameFraction(p, q, a, b) ==
  IF SeqRange(a) = {} /\ SeqRange(b) = {} THEN p = q /\ q > 0
  ELSE q > 0 /\ p * RefUnion(a, b) = q * RefInter(a, b)
=============================================================================
