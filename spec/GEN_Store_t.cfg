CONSTANTS
  MaxLen = 5
