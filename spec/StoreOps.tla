----------------------------- MODULE StoreOps -----------------------------
(* store/store.rs and search/mod.rs: the Store object with its trigram index and    *)
(* its cache of top-rated positions, one action per public call.                   *)
(*                                                                                  *)
(* The state of one store is a record                                               *)
(*   [records, nextIx, limit, dividers, index, topIxs]                              *)
(* and every public call is a function from store records to store records          *)
(* (S_Add, S_Clear, ...), so that the same definitions serve the single-store       *)
(* machine below (variable `store`), the registry of stores (Registry.tla) and the  *)
(* trace specifications, which track several stores at once.                        *)
(*                                                                                  *)
(* The matcher, scorer and highlighter are a parameter (operator Eval), so that the *)
(* machine is checked with a small abstract matcher (MC_Store) and with the full    *)
(* pipeline specification.                                                          *)
(*                                                                                  *)
(* Variant selects between the behaviour of the pinned commit ("pinned": the cache  *)
(* is never invalidated and `clear` leaves the index populated) and the repaired    *)
(* one ("fixed").  See DESIGN.md section 7.                                         *)
EXTENDS Trigram

CONSTANTS CapFactor,          \* 10 in the code (`size * 10` in TrigramIndex::prepare)
          Variant             \* "pinned" or "fixed"

CONSTANTS Eval(_, _, _, _),   \* (record, query, left, right) -> [pass, key, title]
          QWords(_),          \* number of words of the tokenised query
          QGrams(_)           \* gram set of the tokenised query

DefaultLimit == 10
NewStore ==
  [records |-> <<>>, nextIx |-> 0, limit |-> DefaultLimit,
   dividers |-> [l |-> <<91>>, r |-> <<93>>],          \* "[" and "]"
   index |-> EmptyIndex,
   topIxs |-> None]         \* None or Some([limit, ixs]): the cached top-rated positions

MkRecord(ix, id, title, rating, tok) == [ix |-> ix, id |-> id, title |-> title, rating |-> rating, tok |-> tok]

----------------------------------------------------------------------------
\* Store::add
AddSafe(s, tok) == /\ s.nextIx = Len(s.records)                       \* debug_assert in Store::add
                   /\ AddMonotone(s.index, s.nextIx, GramSet(tok))    \* debug_assert in TrigramIndex::add
S_Add(s, id, title, rating, tok) ==
  [s EXCEPT !.records = Append(@, MkRecord(s.nextIx, id, title, rating, tok)),
            !.index   = IndexAdd(@, s.nextIx, GramSet(tok)),
            !.nextIx  = @ + 1,
            !.topIxs  = IF Variant = "pinned" THEN @ ELSE None]

\* Store::clear
S_Clear(s) ==
  [s EXCEPT !.records = <<>>, !.nextIx = 0,
            !.index   = IF Variant = "pinned" THEN @ ELSE EmptyIndex,
            !.topIxs  = IF Variant = "pinned" THEN @ ELSE None]

\* `store.limit = n` (the field is public and assigned directly, also by lib.rs::set_limit)
S_SetLimit(s, n) == [s EXCEPT !.limit = n]

\* Store::highlight_with
S_SetMarkers(s, l, r) == [s EXCEPT !.dividers = [l |-> l, r |-> r]]

----------------------------------------------------------------------------
\* Store::top_ixs: the cached list, or the `limit` best by (rating desc, normalised title asc)
RatingItems(recs) == [i \in DOMAIN recs |-> [key |-> <<-recs[i].rating>> \o recs[i].tok.chars, ix |-> recs[i].ix]]

CacheUsable(s) == /\ IsSome(s.topIxs)
                  /\ (Variant = "pinned" \/ Get(s.topIxs).limit = s.limit)

TopIxsOutcomes(s) ==
  IF CacheUsable(s) THEN { Get(s.topIxs).ixs }
  ELSE { [i \in DOMAIN o |-> o[i].ix] : o \in Outcomes(RatingItems(s.records), s.limit) }

\* an outcome is a record: the hit list, or the fact that the call panicked
Ok(hits) == [panic |-> FALSE, hits |-> hits]
Panic    == [panic |-> TRUE,  hits |-> <<>>]

\* score -> filter -> limit_sort_unstable -> highlight over the candidate positions, in order.
\* A position without a record makes the code index out of bounds.
PositionsValid(recs, ixs) == \A i \in DOMAIN ixs : InRange(ixs[i], Len(recs))

SelectOutcomes(recs, ixs, q, lim, div) ==
  LET ev(i)  == Eval(recs[ixs[i] + 1], q, div.l, div.r)
      all    == [i \in DOMAIN ixs |-> [key |-> ev(i).key, pass |-> ev(i).pass,
                                       hit |-> [id |-> recs[ixs[i] + 1].id, title |-> ev(i).title]]]
      passed == SelectSeq(all, LAMBDA x : x.pass)
  IN { Ok([i \in DOMAIN o |-> o[i].hit]) : o \in Outcomes(passed, lim) }

GuardedSelect(s, ixs, q, safe) ==
  IF safe /\ PositionsValid(s.records, ixs) THEN SelectOutcomes(s.records, ixs, q, s.limit, s.dividers) ELSE { Panic }

\* Store::search: set of pairs [out, cache] the call may produce in state s
S_SearchOutcomes(s, q) ==
  IF QWords(q) = 0
    THEN UNION { { [out |-> o, cache |-> Some([limit |-> s.limit, ixs |-> ixs])] : o \in GuardedSelect(s, ixs, q, TRUE) }
                 : ixs \in TopIxsOutcomes(s) }
    ELSE UNION { { [out |-> o, cache |-> s.topIxs] : o \in GuardedSelect(s, ixs, q, CountersInRange(s.index, QGrams(q))) }
                 : ixs \in PrepareOutcomes(s.index, QWords(q), QGrams(q), s.limit, CapFactor) }

S_AfterSearch(s, res) ==
  [s EXCEPT !.topIxs = IF Variant = "pinned" /\ IsSome(s.topIxs) THEN @ ELSE res.cache]

----------------------------------------------------------------------------
(* Reference definitions.                                                           *)

\* a store built from scratch by adding `recs` in order: its index, no cache
RECURSIVE BuildIndex(_, _)
BuildIndex(recs, n) == IF n = 0 THEN EmptyIndex
                       ELSE IndexAdd(BuildIndex(recs, n - 1), n - 1, GramSet(recs[n].tok))

Rebuilt(s) ==
  LET recs == [i \in DOMAIN s.records |-> [s.records[i] EXCEPT !.ix = i - 1]]
  IN [s EXCEPT !.records = recs, !.nextIx = Len(recs), !.index = BuildIndex(recs, Len(recs)), !.topIxs = None]

Outs(s, q) == { r.out : r \in S_SearchOutcomes(s, q) }

\* what a freshly constructed store (same records in the same order, limit, markers) may answer
FreshOutcomes(s, q) == Outs(Rebuilt(s), q)

\* index-free, cache-free definition: every record judged on its own, the `limit` best kept
IdealOutcomes(s, q) ==
  LET all    == [i \in DOMAIN s.records |->
                   LET e == Eval(s.records[i], q, s.dividers.l, s.dividers.r)
                   IN [key |-> e.key, pass |-> e.pass, hit |-> [id |-> s.records[i].id, title |-> e.title]]]
      passed == SelectSeq(all, LAMBDA x : x.pass)
  IN { Ok([i \in DOMAIN o |-> o[i].hit]) : o \in { Take(p, s.limit) : p \in SortedPerms(passed) } }

\* C10 on the design: whatever the history, a search answers like a freshly built store
NoStaleState(s, q) == Outs(s, q) \subseteq FreshOutcomes(s, q)
\* C01 on the design: no reachable state makes a search index out of range
NoPanic(s, q)      == \A o \in Outs(s, q) : ~o.panic
\* structural facts the implementation relies on
IndexConsistent(s) ==
  /\ s.index.len = Len(s.records)
  /\ s.nextIx = Len(s.records)
  /\ \A g \in DOMAIN s.index.dict : \A k \in 1..Len(s.index.dict[g]) :
        /\ InRange(s.index.dict[g][k], Len(s.records))
        /\ g \in GramSet(s.records[s.index.dict[g][k] + 1].tok)
        /\ (k > 1 => s.index.dict[g][k - 1] < s.index.dict[g][k])
  /\ \A i \in DOMAIN s.records : s.records[i].ix = i - 1
=============================================================================
