SPECIFICATION Spec
CONSTANTS
  NSym = 3
  MaxWord = 3
  Mode = "whole"
INVARIANTS Found ArithSafe Markup
CHECK_DEADLOCK FALSE
