SPECIFICATION Spec
CONSTANTS
  NSym = 2
  MaxWord = 3
  Mode = "joined"
INVARIANTS Found ArithSafe Markup
CHECK_DEADLOCK FALSE
