SPECIFICATION Spec
CONSTANTS
  Lang = "ru"
  MaxLen = 4
  Alphabet <- AlphaRu
  CI <- MCI
INVARIANTS WellFormedBoth VariantsAgree
CHECK_DEADLOCK FALSE
