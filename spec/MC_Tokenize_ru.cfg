SPECIFICATION Spec
CONSTANTS
  Lang = "ru"
  MaxLen = 4
  Alphabet <- AlphaRu
  CI <- MCI
INVARIANTS WellFormedBoth VariantsAgree Idempotent
CHECK_DEADLOCK FALSE
