SPECIFICATION Spec
CONSTANTS
  NSym = 3
  MaxWord = 3
  Mode = "arith"
INVARIANTS PinnedScoreSafe
CHECK_DEADLOCK FALSE
