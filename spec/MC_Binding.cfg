SPECIFICATION Spec
CONSTANTS
  MaxHits = 2
  MaxTitle = 2
  MaxPlain = 5
INVARIANTS InvWire InvChunks InvTitle
CHECK_DEADLOCK FALSE
