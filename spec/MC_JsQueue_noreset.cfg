SPECIFICATION Spec
CONSTANTS
  MaxLinks = 4
  MaxSearches = 2
  Variant = "no_reset"
INVARIANTS SetupOrder Fifo
CHECK_DEADLOCK FALSE
