CONSTANTS
  MaxLen = 4
