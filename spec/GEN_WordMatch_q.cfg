CONSTANTS
  NSym = 3
  MaxLen = 3
