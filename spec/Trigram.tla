------------------------------ MODULE Trigram ------------------------------
(* utils/trigrams.rs and store/trigram_index.rs.                                    *)
(* A gram is a triple of characters; a word of n characters yields its 1- and       *)
(* 2-character starts padded with 0 and its n-2 sliding triples (n grams in all).   *)
(* The index machine keeps `len` (number of add calls) and `dict`, a function from  *)
(* grams to the increasing list of record positions that contain the gram.          *)
EXTENDS LimitSort

Grams(w) ==
  LET n == Len(w) IN
       (IF n >= 1 THEN { <<w[1], 0, 0>> } ELSE {})
  \cup (IF n >= 2 THEN { <<w[1], w[2], 0>> } ELSE {})
  \cup { <<w[i], w[i + 1], w[i + 2]>> : i \in 1..(n - 2) }

\* a tokenised text is a record [chars, words, ...]; word slices are 0-based, end exclusive
\* (empty when the recorded bounds do not fit the array: a malformed recorded tokenisation is C15's finding and must not
\*  make an operator fail)
WordChars(tok, i) == IF tok.words[i].s >= 0 /\ tok.words[i].s <= tok.words[i].e /\ tok.words[i].e <= Len(tok.chars)
                       THEN SubSeq(tok.chars, tok.words[i].s + 1, tok.words[i].e) ELSE <<>>
TextWords(tok)    == [i \in 1..Len(tok.words) |-> WordChars(tok, i)]
GramSet(tok)      == UNION { Grams(WordChars(tok, i)) : i \in 1..Len(tok.words) }

----------------------------------------------------------------------------
EmptyIndex == [len |-> 0, dict |-> <<>>]          \* <<>> is the function with empty domain

Posting(index, g) == IF g \in DOMAIN index.dict THEN index.dict[g] ELSE <<>>

\* TrigramIndex::add: the position is appended to the list of each gram of the title
IndexAdd(index, ix, grams) ==
  [len  |-> index.len + 1,
   dict |-> [g \in DOMAIN index.dict \cup grams |->
               IF g \in grams THEN Append(Posting(index, g), ix) ELSE index.dict[g]]]

\* debug_assert in add: posting lists stay strictly increasing
AddMonotone(index, ix, grams) ==
  \A g \in grams : Posting(index, g) = <<>> \/ Last(Posting(index, g)) < ix

\* every position stored in a posting list, with the extent of the counter vector it indexes
CounterAccessesOf(index, qgrams) ==
  UNION { { [ix |-> Posting(index, g)[k], len |-> index.len] : k \in 1..Len(Posting(index, g)) } : g \in qgrams }
CountersInRange(index, qgrams) == \A a \in CounterAccessesOf(index, qgrams) : InRange(a.ix, a.len)

\* shared-gram count of position ix
SharedCount(index, qgrams, ix) ==
  Cardinality({ g \in qgrams : \E k \in 1..Len(Posting(index, g)) : Posting(index, g)[k] = ix })

\* candidates in position order with a positive count, as items for the limit sort
Candidates(index, qgrams) ==
  LET pos == { ix \in 0..(index.len - 1) : SharedCount(index, qgrams, ix) > 0 }
      RECURSIVE Asc(_, _)
      Asc(from, acc) == IF from >= index.len THEN acc
                        ELSE Asc(from + 1, IF from \in pos
                                             THEN Append(acc, [key |-> <<-SharedCount(index, qgrams, from)>>, ix |-> from])
                                             ELSE acc)
  IN Asc(0, <<>>)

\* TrigramIndex::prepare: all lists of positions the code may return
PrepareOutcomes(index, qwords, qgrams, size, capFactor) ==
  IF qwords = 0 THEN { <<>> }
  ELSE { [i \in DOMAIN o |-> o[i].ix] : o \in Outcomes(Candidates(index, qgrams), size * capFactor) }
=============================================================================
