------------------------------ MODULE Registry ------------------------------
(* lib.rs: the top-level registry - two thread-local maps, STORES : id -> Store and  *)
(* RESULTS : id -> Vec<SearchResult> - and the calls the WASM bridge forwards.        *)
(* A registry is a function id -> [lang, s, buf] (store record of StoreOps.tla and    *)
(* the buffer of the last result); calls with an unknown id, or creating an id twice, *)
(* panic in the code and are not part of the API's valid use.                        *)
EXTENDS StoreOps

NoRegistry == <<>>
Known(reg, id) == id \in DOMAIN reg
PutId(reg, id, v) == [x \in DOMAIN reg \cup {id} |-> IF x = id THEN v ELSE reg[x]]

R_Create(reg, id, lang)  == PutId(reg, id, [lang |-> lang, s |-> NewStore, buf |-> <<>>])
R_Destroy(reg, id)       == [x \in DOMAIN reg \ {id} |-> reg[x]]
R_Add(reg, id, rid, title, rating, tok) == PutId(reg, id, [reg[id] EXCEPT !.s = S_Add(@, rid, title, rating, tok)])
R_SetLimit(reg, id, n)   == PutId(reg, id, [reg[id] EXCEPT !.s = S_SetLimit(@, n)])     \* also reserves buffer capacity: not observable
R_Clear(reg, id)         == PutId(reg, id, [reg[id] EXCEPT !.s = S_Clear(@)])          \* using_store(id, |s| s.clear())
R_Markers(reg, id, l, r) == PutId(reg, id, [reg[id] EXCEPT !.s = S_SetMarkers(@, l, r)])
\* run_search: the buffer of this id is cleared and refilled with the outcome `res` of Store::search
R_RunSearch(reg, id, res) == PutId(reg, id, [reg[id] EXCEPT !.s = S_AfterSearch(@, res), !.buf = res.out.hits])

\* C20, frame condition: a call on `id` leaves every other id's store and buffer as they were,
\* and only run_search changes the buffer of `id`
Frame(reg, reg2, id, isSearch) ==
  /\ \A j \in DOMAIN reg \cap DOMAIN reg2 : j # id => reg2[j] = reg[j]
  /\ (~isSearch /\ id \in DOMAIN reg /\ id \in DOMAIN reg2) => reg2[id].buf = reg[id].buf
=============================================================================
