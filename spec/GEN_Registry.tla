----------------------------- MODULE GEN_Registry -----------------------------
(* Case generation for the top-level API (specification -> implementation): every   *)
(* VALID call sequence up to MaxLen over two store ids - create, destroy, add (two   *)
(* titles), set limit {0, 1, 12}, set markers, run search (empty and non-empty) -    *)
(* where validity (no duplicate create, no use of a missing id) is decided by the    *)
(* registry machine's own notion of a live id.  The harness replays each sequence    *)
(* through lib.rs with a stand-alone Store per id in lock-step; TV_Store validates.   *)
EXTENDS Base, SequencesExt, Json, IOUtils
CONSTANTS MaxLen

Ids == {1, 2}
OpsOn(id) == { [op |-> "create", id |-> id], [op |-> "destroy", id |-> id], [op |-> "markers", id |-> id] }
        \cup { [op |-> "add", id |-> id, t |-> t] : t \in {1, 2} }
        \cup { [op |-> "limit", id |-> id, n |-> n] : n \in {0, 1, 12} }
        \cup { [op |-> "search", id |-> id, q |-> q] : q \in {0, 1} }
AllOps == UNION { OpsOn(id) : id \in Ids }

RECURSIVE LiveAfter(_)
LiveAfter(h) == IF h = <<>> THEN {}
                ELSE LET L == LiveAfter(Front(h))  o == Last(h) IN
                     IF o.op = "create" THEN L \cup {o.id} ELSE IF o.op = "destroy" THEN L \ {o.id} ELSE L
ValidNext(h, o) == IF o.op = "create" THEN o.id \notin LiveAfter(h) ELSE o.id \in LiveAfter(h)

\* valid histories of length <= n, built from valid prefixes only
RECURSIVE VHist(_)
VHist(n) == IF n = 0 THEN { <<>> }
            ELSE LET P == VHist(n - 1) IN
                 P \cup UNION { { Append(h, o) : o \in { oo \in AllOps : ValidNext(h, oo) } } : h \in { x \in P : Len(x) = n - 1 } }
\* sequences that end in an observation of interest (a search, or a create that must start empty)
Cases == { h \in VHist(MaxLen) : h # <<>> /\ Last(h).op \in {"search", "create"} }

ASSUME ndJsonSerialize(IOEnv.GEN_OUT, SetToSeq({ [ops |-> h] : h \in Cases }))
ASSUME PrintT(<<"GEN-COUNT", Cardinality(Cases)>>)
=============================================================================
