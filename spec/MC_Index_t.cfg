SPECIFICATION Spec
CONSTANTS
  MaxAdds = 5
  CapF = 2
INVARIANTS C18 EmptyQuery PostingsOk C19Counters
CHECK_DEADLOCK FALSE
