SPECIFICATION Spec
CONSTANTS
  MaxLen = 4
INVARIANTS RoundTrip ThrowsOnEmpty ChunksOk
CHECK_DEADLOCK FALSE
