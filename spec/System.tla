------------------------------- MODULE System -------------------------------
(* The whole of LucidSuggest as one specification: the registry of stores           *)
(* (Registry.tla, StoreOps.tla with its index and cache) instantiated with the real *)
(* per-record pipeline - text match, scores, filter, highlight (Score.tla) - on     *)
(* tokenised texts.  A query is a tokenised text; a record carries its tokenised    *)
(* title.  This module only fixes the three parameters of StoreOps; MC_System        *)
(* explores it.                                                                      *)
EXTENDS Registry, Score

SysEval(rec, q, l, r) ==
  LET e == EvalRecord(rec.tok, rec.rating, q, l, r) IN [pass |-> e.pass, key |-> e.key, title |-> e.title]
SysQWords(q) == Len(q.words)
SysQGrams(q) == GramSet(q)
=============================================================================
