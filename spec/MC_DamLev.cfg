SPECIFICATION Spec
CONSTANTS
  MaxLen = 3
  MaxCalls = 1
  NSym = 4
  InitCap = 1
INVARIANTS HistoryFree PrefixCells Laws InBoundsAll SizeOk
CHECK_DEADLOCK FALSE
