------------------------------- MODULE Props -------------------------------
(* The listed properties as predicates over what was observed at the public API     *)
(* (and at the guarded hooks), evaluated by TLC on recorded events.                 *)
(* Every operator returns [f |-> findings, n |-> properties exercised non-trivially]. *)
(*                                                                                  *)
(* Conventions: E is the recorded event; S = [lang, s] is the specification's own   *)
(* state of the store the event refers to (s as in Store.tla: records carry the     *)
(* title as given and `tok`, the public tokenisation recorded when it was added).   *)
EXTENDS TVCommon, Highlight, Trigram

Res(f, n) == [f |-> f, n |-> n]
NoRes == Res(<<>>, <<>>)
Join2(a, b) == Res(a.f \o b.f, a.n \o b.n)
RECURSIVE JoinAll(_)
JoinAll(rs) == IF rs = <<>> THEN NoRes ELSE Join2(Head(rs), JoinAll(Tail(rs)))
\* one check: counted as exercised, finding when false
Chk(cond, line, prop, why) == Res(Check(cond, line, prop, why), <<prop>>)
\* a check whose precondition may not hold (then it neither counts nor fails)
ChkIf(pre, cond, line, prop, why) == IF pre THEN Chk(cond, line, prop, why) ELSE Res(<<>>, <<"ood">>)

Ids(hits)        == [i \in DOMAIN hits |-> hits[i].id]
HasRec(s, id)    == \E i \in DOMAIN s.records : s.records[i].id = id
RecOf(s, id)     == s.records[CHOOSE i \in DOMAIN s.records : s.records[i].id = id]
\* the same through the id -> position map the trace specification keeps next to each store (S.ix)
HasRecS(S, id)   == id \in DOMAIN S.ix
RecOfS(S, id)    == S.s.records[S.ix[id]]
UniqueIds(s)     == NoDup([i \in DOMAIN s.records |-> s.records[i].id])
Sentinels(s)     == s.dividers.l = <<SL>> /\ s.dividers.r = <<SR>>
SentinelFree(t)  == SL \notin SeqRange(t) /\ SR \notin SeqRange(t)
QHasWords(E)     == Len(E.qtok.words) > 0
\* the query as typed contains a letter or digit (Rust's is_alphanumeric, from the recorded character table)
QHasAlnum(E)     == \E i \in DOMAIN E.q : TVCI(E.q[i]).alnum
HitPairs(hits)   == [i \in DOMAIN hits |-> <<hits[i].id, hits[i].title>>]

----------------------------------------------------------------------------
\* C01: the call returned (no panic, no hang), and the checked build agrees with the shipping build
C01(E, line) ==
  JoinAll(<<
    Chk(~Has(E, "panic"), line, "C01", "call panicked in the checked build"),
    IF Has(E, "fresh_panic") THEN Chk(FALSE, line, "C01", "fresh store panicked") ELSE NoRes,
    IF Has(E, "ship") THEN
         Chk(~Has(E.ship, "panic") /\ (Has(E, "hits") /\ Has(E.ship, "hits") => E.hits = E.ship.hits)
             /\ (Has(E, "hits") <=> Has(E.ship, "hits")),
             line, "C01", "checked build and shipping build disagree (or the shipping build panicked)")
    ELSE NoRes >>)

----------------------------------------------------------------------------
\* C02: ids are real, titles are the stored titles plus markers (modulo composition), no NUL
C02Hit(h, S, line) ==
  LET s == S.s IN
  JoinAll(<<
    Chk(HasRecS(S, h.id), line, "C02", "hit id was never added"),
    Chk(0 \notin SeqRange(h.title), line, "C02", "returned title contains NUL"),
    IF HasRecS(S, h.id) /\ Sentinels(s) /\ SentinelFree(RecOfS(S, h.id).title)
      THEN LET p == ParseHL(h.title) IN
           \* the stored title with the language's accent sequences composed and NUL dropped (in either order:
           \* a NUL between a letter and its combining mark is the one case where the two orders differ)
           ChkIf(p.ok, p.plain \in { StripNul(ComposeSeq(S.lang, RecOfS(S, h.id).title)),
                                     ComposeSeq(S.lang, StripNul(RecOfS(S, h.id).title)) },
                 line, "C02", "title without markers differs from the stored title (composed, NUL dropped)")
      ELSE NoRes >>)

\* the same search with other markers: nothing but the markers changes
C02Alt(E, S, line) ==
  IF ~Has(E, "alt") \/ ~Has(E, "hits") \/ ~Sentinels(S.s) THEN NoRes
  ELSE JoinAll([k \in DOMAIN E.alt |->
         LET A == E.alt[k] IN
         \* a NUL inside a marker is dropped like any other NUL (a returned title never contains NUL)
         JoinAll(<<
           Chk(\A i \in DOMAIN A.hits : 0 \notin SeqRange(A.hits[i].title), line, "C02", "returned title contains NUL"),
           Chk(~Has(A, "panic"), line, "C01", "search with other markers panicked"),
           Chk(Ids(A.hits) = Ids(E.hits), line, "C02", "changing the markers changed the hit list"),
           IF Ids(A.hits) = Ids(E.hits)
             THEN JoinAll([i \in DOMAIN E.hits |->
                    LET p == ParseHL(E.hits[i].title) IN
                    ChkIf(p.ok /\ HasRecS(S, E.hits[i].id) /\ SentinelFree(RecOfS(S, E.hits[i].id).title),
                          A.hits[i].title = InsertMarkers(p.plain, p.spans, StripNul(A.l), StripNul(A.r)),
                          line, "C02", "changing the markers changed more than the markers")])
             ELSE NoRes >>)])

----------------------------------------------------------------------------
\* the markup clauses on a parsed title (plain text + spans), whichever markers it was rendered with
C09Parsed(p, h, E, S, line) ==
  LET tok  == RecOfS(S, h.id).tok
      okLen == p.ok /\ Len(p.plain) = Len(StripNul(tok.source))
  IN JoinAll(<<
       Chk(p.ok, line, "C09", "markers do not alternate"),
       IF okLen THEN
         JoinAll([k \in DOMAIN p.spans |->
           LET sp == p.spans[k] IN
           IF sp.b <= sp.a THEN Chk(FALSE, line, "C09", "empty highlighted span")
           ELSE LET ss == SpanInSource(tok.source, sp)
                    ws == { i \in DOMAIN tok.words : tok.words[i].s = ss.s }
                IN JoinAll(<<
                     Chk(ws # {}, line, "C09", "span does not start at the first character of a title word"),

                     Chk(\A i \in ws : ss.e <= tok.words[i].e, line, "C09", "span runs past the end of its word"),
                     IF Has(E, "qtok") /\ QHasWords(E)
                       THEN Chk(ss.e - ss.s <= (Last(E.qtok.words).e - E.qtok.words[1].s) + 1, line, "C05",
                                "highlighted span longer than the typed stretch plus one")
                       ELSE NoRes >>)])
       ELSE NoRes,
       \* independent of the recorded word bounds and of the stored title: in the returned text itself a span begins with
       \* a letter or digit (a title word does) and is not preceded by one (separators are never letters or digits, C15)
       IF p.ok THEN
         JoinAll([k \in DOMAIN p.spans |->
           LET sp == p.spans[k] IN
           IF sp.b <= sp.a THEN NoRes
           ELSE JoinAll(<<
                  Chk(IsAlnum(p.plain[sp.a + 1]), line, "C09", "span does not start at a letter or digit"),
                  \* (a NUL in the title is a separator that is dropped from the returned text - `a NUL b` comes back as
                  \*  `[a][b]` -, so this clause is judged on titles without NUL only)
                  ChkIf(0 \notin SeqRange(tok.source) /\ 0 \notin SeqRange(RecOfS(S, h.id).title),
                        sp.a = 0 \/ ~IsAlnum(p.plain[sp.a]), line, "C09", "span starts in the middle of a run of letters and digits") >>)])
       ELSE NoRes,
       IF p.ok /\ Has(E, "q")
         THEN IF QHasAlnum(E) THEN Chk(Len(p.spans) >= 1, line, "C09", "hit for a query with a letter or digit has no highlight")
                              ELSE Chk(Len(p.spans) = 0, line, "C09", "hit for a query without letter or digit is highlighted")
         ELSE NoRes >>)


\* C09 (+ the span clause of C05): markup of one hit against the public tokenisation of its title
C09Hit(h, E, S, line) ==
  LET s == S.s IN
  IF Sentinels(s) /\ ~HasRecS(S, h.id) /\ Has(E, "q") THEN
    \* a hit that is not a record of the store (C02 reports that): the count rule can still be judged
    LET p0 == ParseHL(h.title) IN
    IF QHasAlnum(E) THEN ChkIf(p0.ok, Len(p0.spans) >= 1, line, "C09", "hit for a query with a letter or digit has no highlight")
                    ELSE ChkIf(p0.ok, Len(p0.spans) = 0, line, "C09", "hit for a query without letter or digit is highlighted")
  ELSE
  IF ~(HasRecS(S, h.id) /\ Sentinels(s) /\ SentinelFree(RecOfS(S, h.id).title)) THEN NoRes
  ELSE
  C09Parsed(ParseHL(h.title), h, E, S, line)

\* C09 under other markers than the sentinels: when the same search was repeated with a marker pair that can be parsed
\* unambiguously (MarkersParseable, and no marker character occurs in the record's title), the returned title is parsed
\* with those markers and judged by the same clauses - the property speaks of the configured markers, whatever they are
C09Alt(E, S, line) ==
  IF ~Has(E, "alt") \/ ~Has(E, "hits") THEN NoRes
  ELSE JoinAll([k \in DOMAIN E.alt |->
         LET A == E.alt[k]  L == StripNul(A.l)  R == StripNul(A.r) IN
         IF ~MarkersParseable(L, R) \/ Has(A, "panic") THEN NoRes
         ELSE JoinAll([i \in DOMAIN A.hits |->
                LET h == A.hits[i] IN
                \* neither the stored title nor its composed form (what the plain returned title must be) contains a marker character
                IF HasRecS(S, h.id) /\ (SeqRange(RecOfS(S, h.id).title) \cup SeqRange(RecOfS(S, h.id).tok.source))
                                         \cap (SeqRange(L) \cup SeqRange(R)) = {}
                  THEN C09Parsed(ParseWith(h.title, L, R), h, E, S, line)
                  ELSE NoRes])])

----------------------------------------------------------------------------
\* C05: every hit shares a gram with the query
C05Hit(h, E, S, line) ==
  IF ~(Has(E, "qtok") /\ QHasAlnum(E) /\ HasRecS(S, h.id)) THEN NoRes
  ELSE Chk(GramSet(RecOfS(S, h.id).tok) \cap GramSet(E.qtok) # {}, line, "C05", "hit shares no gram with the query")

----------------------------------------------------------------------------
\* C06 (generic half): never more hits than the limit, no record twice
C06Basic(E, S, line) ==
  JoinAll(<<
    Chk(Len(E.hits) <= S.s.limit, line, "C06", "more hits than the limit"),
    ChkIf(UniqueIds(S.s), NoDup(Ids(E.hits)), line, "C06", "a record is returned twice") >>)

\* C06 (relational): each record's own verdict; first `limit` of the unlimited list
C06Rel(E, S, line) ==
  LET s == S.s  n == Len(s.records) IN
  JoinAll(<<
    IF Has(E, "singles") /\ UniqueIds(s) THEN
      JoinAll(<<
        \* a singleton store returns nothing or exactly its record
        JoinAll([k \in DOMAIN E.singles |->
           Chk(Len(E.singles[k].hits) <= 1 /\ \A i \in DOMAIN E.singles[k].hits : E.singles[k].hits[i].id = E.singles[k].id,
               line, "C06", "singleton store returned something else than its record")]),
        \* soundness for every store size: a hit is a hit on its own, with the same highlighting
        JoinAll([i \in DOMAIN E.hits |->
           Chk(\E k \in DOMAIN E.singles : E.singles[k].id = E.hits[i].id /\ E.singles[k].hits = <<E.hits[i]>>,
               line, "C06", "hit differs from the verdict of its record alone")]) >>)
    ELSE NoRes,
    IF Has(E, "unlimited") /\ UniqueIds(s) THEN
      JoinAll(<<
        ChkIf(n <= 10 * s.limit /\ NoDup([i \in DOMAIN s.records |-> s.records[i].rating]),
              E.hits = Take(E.unlimited, s.limit), line, "C06", "hits are not the first `limit` entries of the unlimited list"),
        IF Has(E, "singles") THEN
          JoinAll([k \in DOMAIN E.singles |->
             Chk(E.singles[k].hits = <<>> \/ \E i \in DOMAIN E.unlimited : <<E.unlimited[i]>> = E.singles[k].hits,
                 line, "C06", "a record that is a hit on its own is missing from the unlimited list")])
        ELSE NoRes,
        \* stores too large to ask every record alone: the same two clauses on a sample of the records
        IF Has(E, "singles_some") THEN
          JoinAll([k \in DOMAIN E.singles_some |->
             JoinAll(<<
               Chk(Len(E.singles_some[k].hits) <= 1 /\ \A i \in DOMAIN E.singles_some[k].hits : E.singles_some[k].hits[i].id = E.singles_some[k].id,
                   line, "C06", "singleton store returned something else than its record"),
               Chk(E.singles_some[k].hits = <<>> \/ \E i \in DOMAIN E.unlimited : <<E.unlimited[i]>> = E.singles_some[k].hits,
                   line, "C06", "a record that is a hit on its own is missing from the unlimited list"),
               Chk(\A i \in DOMAIN E.unlimited : E.unlimited[i].id = E.singles_some[k].id => E.singles_some[k].hits = <<E.unlimited[i]>>,
                   line, "C06", "hit differs from the verdict of its record alone") >>)])
        ELSE NoRes >>)
    ELSE NoRes >>)

----------------------------------------------------------------------------
\* C07: order of two hits = order in the two-record store, both insertion orders; permutations
C07Rel(E, S, line) ==
  LET s == S.s
      distinct == NoDup([i \in DOMAIN s.records |-> s.records[i].rating]) /\ UniqueIds(s)
  IN JoinAll(<<
    IF Has(E, "pairs") /\ distinct THEN
      JoinAll([k \in DOMAIN E.pairs |->
        LET P == E.pairs[k]
            ia == CHOOSE i \in DOMAIN E.hits : E.hits[i].id = P.a
            ib == CHOOSE i \in DOMAIN E.hits : E.hits[i].id = P.b
            want == IF ia < ib THEN <<P.a, P.b>> ELSE <<P.b, P.a>>
        IN ChkIf(P.a \in SeqRange(Ids(E.hits)) /\ P.b \in SeqRange(Ids(E.hits)) /\ P.limit >= 2,
                 Ids(P.ab) = want /\ Ids(P.ba) = want, line, "C07",
                 "two hits are ordered differently when only they are in the store")])
    ELSE NoRes,
    IF Has(E, "perms") /\ distinct THEN
      JoinAll([k \in DOMAIN E.perms |->
        ChkIf(Len(s.records) <= 10 * s.limit /\ SameBag(E.perms[k].order, [i \in DOMAIN s.records |-> s.records[i].id]),
              E.perms[k].hits = E.hits, line, "C07", "insertion order changed the hit list")])
    ELSE NoRes >>)

----------------------------------------------------------------------------
\* C10: the store answers like a freshly built one; the fresh one was built from the spec's own state
PlainRecords(s) == [i \in DOMAIN s.records |-> [id |-> s.records[i].id, title |-> s.records[i].title, rating |-> s.records[i].rating]]
C10(E, S, line) ==
  IF ~Has(E, "fresh_args") THEN NoRes
  ELSE LET A == E.fresh_args  s == S.s IN
       IF ~(A.lang = S.lang /\ A.records = PlainRecords(s) /\ A.limit = s.limit /\ A.l = s.dividers.l /\ A.r = s.dividers.r)
         THEN Res(<<Finding(line, "TOOL", "harness built the fresh store from a state that differs from the specification's")>>, <<>>)
         ELSE JoinAll(<<
                Chk(Has(E, "hits") /\ Has(E, "fresh_hits") /\ E.hits = E.fresh_hits, line, "C10",
                    "search differs from the same search on a freshly built store"),
                IF Has(E, "again") THEN Chk(\A k \in DOMAIN E.again : E.again[k] = E.hits, line, "C10", "repeating the search changed the answer")
                ELSE NoRes >>)

----------------------------------------------------------------------------
\* C12: the empty query lists the top-rated records
C12(E, S, line) ==
  IF ~(Has(E, "qtok") /\ ~QHasAlnum(E) /\ UniqueIds(S.s)) THEN NoRes
  ELSE
  LET s == S.s  h == E.hits
      listed == { h[i].id : i \in DOMAIN h }
      known  == \A i \in DOMAIN h : HasRecS(S, h[i].id)
      rt(id) == RecOfS(S, id).rating
      key(id) == RecOfS(S, id).tok.chars
  IN JoinAll(<<
       Chk(Len(h) = Min2(s.limit, Len(s.records)), line, "C12", "empty query does not return min(limit, records) hits"),
       Chk(known, line, "C12", "empty query lists a record that is not in the store"),
       IF known THEN JoinAll(<<
         Chk(\A i \in 1..(Len(h) - 1) : rt(h[i].id) >= rt(h[i + 1].id), line, "C12", "ratings increase down the list"),
         Chk(\A r \in SeqRange(s.records) : r.id \notin listed =>
               \A id \in listed : /\ rt(id) >= r.rating
                                  /\ (rt(id) = r.rating => LexLeq(key(id), r.tok.chars)),
             line, "C12", "an omitted record is better rated (or earlier in title order at equal rating) than a listed one"),
         IF Sentinels(s) THEN Chk(\A i \in DOMAIN h : SentinelFree(h[i].title) \/ ~SentinelFree(RecOfS(S, h[i].id).title),
                                  line, "C12", "empty query produced highlighting") ELSE NoRes >>)
       ELSE NoRes >>)
=============================================================================
