SPECIFICATION TvSpec
INVARIANT Report
POSTCONDITION Consumed
CHECK_DEADLOCK FALSE
