------------------------------- MODULE Base -------------------------------
(* Small vocabulary shared by every module of the LucidSuggest specification.       *)
(* Texts are sequences of integers (Unicode scalar values); optional values are     *)
(* sequences of length 0 or 1; all quantities that are multiples of 0.5 in the code *)
(* are kept in integer half-units.                                                  *)
EXTENDS Naturals, Integers, Sequences, FiniteSets, TLC

Min2(a, b) == IF a < b THEN a ELSE b
Max2(a, b) == IF a > b THEN a ELSE b
Abs(a)     == IF a < 0 THEN -a ELSE a
CeilDiv(a, b) == (a + b - 1) \div b          \* for a >= 0, b > 0

None      == <<>>
Some(x)   == <<x>>
IsSome(o) == o # <<>>
Get(o)    == o[1]

SeqRange(s) == { s[i] : i \in DOMAIN s }
Take(s, n)  == SubSeq(s, 1, Min2(n, Len(s)))
Drop(s, n)  == SubSeq(s, n + 1, Len(s))
Last(s)     == s[Len(s)]
Without(s, i) == SubSeq(s, 1, i - 1) \o SubSeq(s, i + 1, Len(s))

RECURSIVE SeqSum(_)
SeqSum(s) == IF s = <<>> THEN 0 ELSE Head(s) + SeqSum(Tail(s))

RECURSIVE Flatten(_)
Flatten(ss) == IF ss = <<>> THEN <<>> ELSE Head(ss) \o Flatten(Tail(ss))

\* lexicographic order on sequences of integers; a proper prefix is smaller (Rust's Ord for slices)
RECURSIVE LexCmp(_, _)
LexCmp(a, b) ==
  IF a = <<>> THEN (IF b = <<>> THEN 0 ELSE -1)
  ELSE IF b = <<>> THEN 1
  ELSE IF Head(a) < Head(b) THEN -1
  ELSE IF Head(a) > Head(b) THEN 1
  ELSE LexCmp(Tail(a), Tail(b))

LexLess(a, b) == LexCmp(a, b) < 0
LexLeq(a, b)  == LexCmp(a, b) <= 0

\* positions of s (1-based) whose element satisfies Test
Positions(s, Test(_)) == { i \in DOMAIN s : Test(s[i]) }

\* number of occurrences
Count(s, x) == Cardinality({ i \in DOMAIN s : s[i] = x })

\* s is duplicate free
NoDup(s) == Cardinality(SeqRange(s)) = Len(s)

\* bag equality / sub-bag of two sequences
SameBag(s, t) == /\ Len(s) = Len(t)
                 /\ \A x \in SeqRange(s) \cup SeqRange(t) : Count(s, x) = Count(t, x)
SubBag(s, t)  == \A x \in SeqRange(s) : Count(s, x) <= Count(t, x)

\* s is a subsequence of t obtained by deleting elements of t (order kept)
RECURSIVE IsSubseq(_, _)
IsSubseq(s, t) ==
  IF s = <<>> THEN TRUE
  ELSE IF t = <<>> THEN FALSE
  ELSE IF Head(s) = Head(t) THEN IsSubseq(Tail(s), Tail(t))
  ELSE IsSubseq(s, Tail(t))

IsPrefixOf(p, s) == Len(p) <= Len(s) /\ SubSeq(s, 1, Len(p)) = p

\* obligations attached to unsigned arithmetic and indexing in the code
NoUnderflow(a, b) == a >= b
InRange(i, n)     == 0 <= i /\ i < n
=============================================================================
