SPECIFICATION Spec
CONSTANTS
  ULen = 5
  XLen = 3
  Scenario = "length"
INVARIANT Priority
CHECK_DEADLOCK FALSE
