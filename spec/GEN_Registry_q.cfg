CONSTANTS
  MaxLen = 5
