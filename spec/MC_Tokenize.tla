----------------------------- MODULE MC_Tokenize -----------------------------
(* L1 for C15 and C11 on Tokenize.tla with the real language tables of Langs.tla:   *)
(* every string up to MaxLen over a small adversarial alphabet of the language      *)
(* (vowel, its accented form, upper-case forms, the combining mark, a character that *)
(* folds to two, consonant, digit, punctuation, white space, a symbol, NUL).        *)
EXTENDS Tokenize
CONSTANTS Lang, MaxLen, Alphabet

\* character facts of the model alphabets (as Rust's tables give them)
Info(alnum, alpha, white, ctrl, punct, upper, lower) ==
  [alnum |-> alnum, alpha |-> alpha, white |-> white, ctrl |-> ctrl, punct |-> punct, upper |-> upper, lower |-> lower]
Letter(c, up, low) == Info(TRUE, TRUE, FALSE, FALSE, FALSE, up, low)
MCI(c) ==
  CASE c = 0   -> Info(FALSE, FALSE, FALSE, TRUE, FALSE, FALSE, 0)
    [] c = 32  -> Info(FALSE, FALSE, TRUE, FALSE, FALSE, FALSE, 32)
    [] c = 36  -> Info(FALSE, FALSE, FALSE, FALSE, FALSE, FALSE, 36)
    [] c = 45  -> Info(FALSE, FALSE, FALSE, FALSE, TRUE, FALSE, 45)
    [] c = 55  -> Info(TRUE, FALSE, FALSE, FALSE, FALSE, FALSE, 55)
    [] c \in {776, 769} -> Info(FALSE, FALSE, FALSE, FALSE, FALSE, FALSE, c)     \* combining marks: neither letter nor separator
    [] c = 65  -> Letter(c, TRUE, 97)      [] c = 97   -> Letter(c, FALSE, 97)
    [] c = 69  -> Letter(c, TRUE, 101)     [] c = 101  -> Letter(c, FALSE, 101)
    [] c = 84  -> Letter(c, TRUE, 116)     [] c = 116  -> Letter(c, FALSE, 116)
    [] c = 196 -> Letter(c, TRUE, 228)     [] c = 228  -> Letter(c, FALSE, 228)
    [] c = 201 -> Letter(c, TRUE, 233)     [] c = 233  -> Letter(c, FALSE, 233)
    [] c = 223 -> Letter(c, FALSE, 223)    [] c = 115  -> Letter(c, FALSE, 115)
    [] c = 338 -> Letter(c, TRUE, 339)     [] c = 339  -> Letter(c, FALSE, 339)
    [] c = 111 -> Letter(c, FALSE, 111)
    [] c = 1045 -> Letter(c, TRUE, 1077)   [] c = 1077 -> Letter(c, FALSE, 1077)
    [] c = 1025 -> Letter(c, TRUE, 1105)   [] c = 1105 -> Letter(c, FALSE, 1105)
    [] c = 1090 -> Letter(c, FALSE, 1090)

AlphaDe == {97, 65, 228, 196, 776, 223, 116, 84, 55, 45, 32, 36, 0}
AlphaFr == {101, 69, 233, 201, 769, 339, 116, 84, 55, 45, 32, 36}
AlphaRu == {1077, 1045, 1105, 1025, 776, 1090, 55, 45, 32, 36}

Strings == UNION { [1..n -> Alphabet] : n \in 0..MaxLen }
WithStems(tok) == [tok EXCEPT !.words = [i \in DOMAIN tok.words |-> tok.words[i] @@ [stem |-> tok.words[i].e - tok.words[i].s]]]

VARIABLES stage, s
vars == <<stage, s>>
Init == stage = 0 /\ s = <<>>
Next == \/ stage = 0 /\ stage' = 1 /\ \E n \in 0..Min2(2, MaxLen) : s' \in [1..n -> Alphabet]
        \/ stage = 1 /\ stage' = 2 /\ \E n \in 0..(MaxLen - 2) : \E t \in [1..n -> Alphabet] : (Len(s) < 2 => n = 0) /\ s' = s \o t
Spec == Init /\ [][Next]_vars

\* C15
WellFormedBoth == stage = 2 => \A isQ \in BOOLEAN :
                    LET tok == WithStems(Tokenize(Lang, s, isQ)) IN
                    /\ WellFormed(tok, isQ)
                    /\ StripNUL(tok.source) = StripNUL(ComposeSeq(Lang, s))
                    /\ ReduceSafe(Lang, ComposeSeq(Lang, s))

\* C11: re-casing, decomposing or folding any subset of positions, and leading separators, do not change the
\* tokenised query (words as character sequences, finished flags, function flags)
Marks == { k[2] : k \in DOMAIN ComposeOf(Lang) }
Decomp(c) == LET ks == { k \in DOMAIN ComposeOf(Lang) : ComposeOf(Lang)[k] = <<c>> } IN IF ks = {} THEN <<c>> ELSE CHOOSE k \in ks : TRUE
OtherCase(c) == LET up == { d \in Alphabet : MCI(d).upper /\ MCI(d).lower = c /\ d # c } IN
                IF MCI(c).upper /\ MCI(c).lower # c THEN <<MCI(c).lower>>
                ELSE IF up # {} THEN <<CHOOSE d \in up : TRUE>> ELSE <<c>>
Fold(c) == IF <<c>> \in DOMAIN ReduceOf(Lang) THEN ReduceOf(Lang)[<<c>>] ELSE <<c>>
VariantsOf(base) ==
  { Flatten([i \in DOMAIN base |-> CASE ops[i] = 1 -> OtherCase(base[i]) [] ops[i] = 2 -> Decomp(base[i]) [] ops[i] = 3 -> Fold(base[i]) [] OTHER -> <<base[i]>>])
    : ops \in [DOMAIN base -> 0..3] }
View(tok) == [i \in DOMAIN tok.words |-> [w |-> SubSeq(tok.chars, tok.words[i].s + 1, tok.words[i].e), fin |-> tok.words[i].fin, func |-> tok.words[i].func]]
VariantsAgree == (stage = 2 /\ SeqRange(s) \cap Marks = {}) =>
                   LET base == View(Tokenize(Lang, s, TRUE)) IN
                   /\ \A v \in VariantsOf(s) : View(Tokenize(Lang, v, TRUE)) = base
                   /\ \A pre \in {<<32>>, <<45, 32>>} : View(Tokenize(Lang, pre \o s, TRUE)) = base
                   \* a record stored decomposed tokenises to the same characters and the same composed original
                   /\ LET d == Flatten([i \in DOMAIN s |-> Decomp(s[i])]) IN
                      /\ Tokenize(Lang, d, FALSE).chars = Tokenize(Lang, s, FALSE).chars
                      /\ Tokenize(Lang, d, FALSE).source = Tokenize(Lang, s, FALSE).source
\* beyond the listed properties: normalisation is idempotent on text without free-standing combining marks, and
\* lower-casing after it is stable (what the tokeniser calls `chars` can be fed back as a query unchanged)
Idempotent == (stage = 2 /\ SeqRange(s) \cap Marks = {}) =>
                LET once == Tokenize(Lang, s, TRUE).chars IN Tokenize(Lang, once, TRUE).chars = once
=============================================================================
