SPECIFICATION Spec
CONSTANTS
  ULen = 5
  XLen = 3
  Scenario = "function"
INVARIANT Priority
CHECK_DEADLOCK FALSE
