SPECIFICATION Spec
CONSTANTS
  NSym = 3
  MaxWord = 3
  Mode = "split"
INVARIANTS Found ArithSafe Markup
CHECK_DEADLOCK FALSE
