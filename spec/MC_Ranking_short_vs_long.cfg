SPECIFICATION Spec
CONSTANTS
  ULen = 5
  XLen = 3
  Scenario = "short_vs_long"
INVARIANT Priority
CHECK_DEADLOCK FALSE
