------------------------------- MODULE DamLev -------------------------------
(* matching/damlev/mod.rs and matrix.rs: the weighted Damerau-Levenshtein distance. *)
(* Distances are multiples of 0.5 and are kept in half-units (1 = 0.5).             *)
(*                                                                                  *)
(* Costs (half-units): consonant 2, vowel 1, non-letter 1, anything else 2; deleting *)
(* or inserting a character that repeats its predecessor costs at most 1;           *)
(* substitution costs the larger of the two character costs; a transposition over   *)
(* a gap costs 1 per skipped position plus 1.                                       *)
(*                                                                                  *)
(* The code keeps one square matrix of dimension `size` for all calls: row/column 0 *)
(* hold the sentinel `size` (whole units), row/column 1 the cumulative costs of the empty prefix, *)
(* cell (i+1, j+1) the distance of the i- and j-prefixes.  Two formulations:        *)
(*   DLRows   - the table as a sequence of rows, built functionally (used to        *)
(*              evaluate the matcher and to validate traces);                       *)
(*   DLStep   - the persistent matrix machine with growth, border rebuilding and    *)
(*              the set of cells touched (used to model-check C16/C19).             *)
EXTENDS Base

CostOf(class) == IF class \in {"V", "N"} THEN 1 ELSE 2
Costs(classes) == [i \in DOMAIN classes |-> CostOf(classes[i])]

RECURSIVE Cum(_, _)
Cum(costs, k) == IF k = 0 THEN 0 ELSE Cum(costs, k - 1) + costs[k]

Min4(a, b, c, d) == Min2(Min2(a, b), Min2(c, d))

\* the cell value computed by the inner loop body of DamerauLevenshtein::distance
\* (i1, i2: 0-based positions; l1, l2: last matching row / column, 0 = none; G(r, c): matrix read)
CellValue(w1, k1, w2, k2, i1, i2, l1, l2, G(_, _)) ==
  LET ch1 == w1[i1 + 1]  ch2 == w2[i2 + 1]
      cost1 == k1[i1 + 1]  cost2 == k2[i2 + 1]
      dbl1 == i1 > 0 /\ ch1 = w1[i1]
      dbl2 == i2 > 0 /\ ch2 = w2[i2]
      costDel == Min2(cost1, IF dbl1 THEN 1 ELSE 2)
      costAdd == Min2(cost2, IF dbl2 THEN 1 ELSE 2)
      costSub == IF ch1 = ch2 THEN 0 ELSE Max2(cost1, cost2)
      costTrans == (i1 - l1) + (i2 - l2) + 1
  IN Min4(costAdd + G(i1 + 2, i2 + 1), costDel + G(i1 + 1, i2 + 2), costSub + G(i1 + 1, i2 + 1), costTrans + G(l1, l2))

----------------------------------------------------------------------------
(* Functional formulation: D[r + 1][c + 1] is matrix cell (r, c) for r <= Len(w1)+1, c <= Len(w2)+1. *)
DLRows(w1, c1, w2, c2, size) ==
  LET n == Len(w1)  m == Len(w2)
      k1 == Costs(c1)  k2 == Costs(c2)
      row0 == [j \in 1..(m + 2) |-> 2 * size]          \* the sentinel is `size` whole units
      row1 == [j \in 1..(m + 2) |-> IF j = 1 THEN 2 * size ELSE Cum(k2, j - 2)]
      RECURSIVE Rows(_, _, _)
      Rows(D, i1, last) ==          \* last: character -> 1-based index of its latest row (last_i1)
        IF i1 = n THEN D
        ELSE
          LET ch1 == w1[i1 + 1]
              RECURSIVE Cols(_, _, _)
              Cols(cur, i2, l2) ==
                IF i2 = m THEN cur
                ELSE
                  LET ch2 == w2[i2 + 1]
                      l1  == IF ch2 \in DOMAIN last THEN last[ch2] ELSE 0
                      G(r, c) == IF r = i1 + 2 THEN cur[c + 1] ELSE D[r + 1][c + 1]
                      d   == CellValue(w1, k1, w2, k2, i1, i2, l1, l2, G)
                  IN Cols(Append(cur, d), i2 + 1, IF ch1 = ch2 THEN i2 + 1 ELSE l2)
              newRow == Cols(<<2 * size, Cum(k1, i1 + 1)>>, 0, 0)
          IN Rows(Append(D, newRow), i1 + 1, [c \in (DOMAIN last) \cup {ch1} |-> IF c = ch1 THEN i1 + 1 ELSE last[c]])
  IN Rows(<<row0, row1>>, 0, <<>>)

\* distance(word1, word2) in half-units, and the value kept for the prefixes of lengths (i, j)
Distance(w1, c1, w2, c2) == DLRows(w1, c1, w2, c2, Max2(Len(w1), Len(w2)) + 2)[Len(w1) + 2][Len(w2) + 2]
PrefixCell(D, i, j) == D[i + 2][j + 2]

\* DistMatrix::prepare: the dimension after a call on words of lengths n1, n2
GrownSize(size, n1, n2) ==
  LET need == Max2(n1, n2) + 2 IN IF need > size THEN need + (need \div 2) ELSE size

----------------------------------------------------------------------------
(* The persistent matrix machine.  A matrix is [size, raw] with raw a function on   *)
(* (0..size-1) \X (0..size-1); `acc` collects every (row, col, size) touched by an  *)
(* unchecked access, for the C19 invariant.                                         *)
NewMatrix(size) ==
  [size |-> size,
   raw  |-> [p \in (0..(size - 1)) \X (0..(size - 1)) |->
               IF p[1] = 0 \/ p[2] = 0 THEN 2 * size
               ELSE IF p[2] = 1 THEN 2 * (p[1] - 1)
               ELSE IF p[1] = 1 THEN 2 * (p[2] - 1) ELSE 0]]

\* resize keeps the flat buffer: the old cell (r, c) lands at flat index r*old + c
Resized(mx, size) ==
  LET old == mx.size
      flat(p) == p[1] * size + p[2]
      RowOfFlat(f) == f \div old
      ColOfFlat(f) == f % old
  IN [p \in (0..(size - 1)) \X (0..(size - 1)) |->
        IF flat(p) < old * old THEN mx.raw[<<RowOfFlat(flat(p)), ColOfFlat(flat(p))>>] ELSE 0]
Initialised(raw, size) ==
  [p \in DOMAIN raw |->
     IF p[1] = 0 \/ p[2] = 0 THEN 2 * size
     ELSE IF p[2] = 1 THEN 2 * (p[1] - 1)
     ELSE IF p[1] = 1 THEN 2 * (p[2] - 1) ELSE raw[p]]

Access(r, c, size) == [row |-> r, col |-> c, size |-> size]
InBounds(a) == InRange(a.row, a.size) /\ InRange(a.col, a.size)

\* one call of distance on the persistent matrix: [mx, acc, result]
DLStep(mx, w1, c1, w2, c2) ==
  LET n == Len(w1)  m == Len(w2)
      k1 == Costs(c1)  k2 == Costs(c2)
      size == GrownSize(mx.size, n, m)
      raw0 == IF size > mx.size THEN Initialised(Resized(mx, size), size) ELSE mx.raw
      acc0 == IF size > mx.size THEN { Access(i, 0, size) : i \in 0..(size - 1) } \cup { Access(0, i, size) : i \in 0..(size - 1) }
                                     \cup { Access(i, 1, size) : i \in 1..(size - 1) } \cup { Access(1, i, size) : i \in 1..(size - 1) }
              ELSE {}
      \* prepare: cumulative costs into column 1 and row 1
      RECURSIVE Bord1(_, _), Bord2(_, _)
      Bord1(raw, i) == IF i = n THEN raw ELSE Bord1([raw EXCEPT ![<<i + 2, 1>>] = raw[<<i + 1, 1>>] + k1[i + 1]], i + 1)
      Bord2(raw, j) == IF j = m THEN raw ELSE Bord2([raw EXCEPT ![<<1, j + 2>>] = raw[<<1, j + 1>>] + k2[j + 1]], j + 1)
      raw1 == Bord2(Bord1(raw0, 0), 0)
      acc1 == acc0 \cup { Access(i + 1, 1, size) : i \in 0..n } \cup { Access(1, j + 1, size) : j \in 0..m }
      RECURSIVE Fill(_, _, _, _, _)
      Fill(raw, i1, i2, l2, last) ==
        IF i1 = n THEN raw
        ELSE IF i2 = m THEN Fill(raw, i1 + 1, 0, 0, [c \in (DOMAIN last) \cup {w1[i1 + 1]} |-> IF c = w1[i1 + 1] THEN i1 + 1 ELSE last[c]])
        ELSE LET ch2 == w2[i2 + 1]
                 l1  == IF ch2 \in DOMAIN last THEN last[ch2] ELSE 0
                 G(r, c) == raw[<<r, c>>]
                 d   == CellValue(w1, k1, w2, k2, i1, i2, l1, l2, G)
             IN Fill([raw EXCEPT ![<<i1 + 2, i2 + 2>>] = d], i1, i2 + 1, IF w1[i1 + 1] = ch2 THEN i2 + 1 ELSE l2, last)
      raw2 == Fill(raw1, 0, 0, 0, <<>>)
      \* the cells the fill reads and writes: rows 0..n+1, columns 0..m+1 (sentinels included via (l1, l2))
      acc2 == acc1 \cup (IF n > 0 /\ m > 0 THEN { Access(r, c, size) : r \in 0..(n + 1), c \in 0..(m + 1) } ELSE {})
                   \cup { Access(n + 1, m + 1, size) }
  IN [mx |-> [size |-> size, raw |-> raw2], acc |-> acc2, result |-> raw2[<<n + 1, m + 1>>]]

----------------------------------------------------------------------------
(* Reference distances with unit costs (whole units).                               *)
\* plain Levenshtein
Lev(a, b) ==
  LET n == Len(a)  m == Len(b)
      RECURSIVE Rows(_, _)
      Rows(prev, i) ==
        IF i > n THEN prev[m + 1]
        ELSE LET RECURSIVE Cols(_, _)
                 Cols(cur, j) ==
                   IF j > m THEN cur
                   ELSE Cols(Append(cur, Min2(Min2(cur[j] + 1, prev[j + 1] + 1),
                                              prev[j] + (IF a[i] = b[j] THEN 0 ELSE 1))), j + 1)
             IN Rows(Cols(<<i>>, 1), i + 1)
  IN Rows([j \in 1..(m + 1) |-> j - 1], 1)

\* unrestricted Damerau-Levenshtein (Lowrance-Wagner): transpositions of characters that need not stay adjacent
UDL(a, b) ==
  LET n == Len(a)  m == Len(b)
      big == n + m + 1
      \* H as a sequence of rows; H[i + 1][j + 1] = distance of prefixes i, j
      RECURSIVE Rows(_, _, _)
      Rows(H, i, da) ==
        IF i > n THEN H[n + 1][m + 1]
        ELSE LET RECURSIVE Cols(_, _, _)
                 Cols(cur, j, db) ==
                   IF j > m THEN cur
                   ELSE LET k == IF b[j] \in DOMAIN da THEN da[b[j]] ELSE 0
                            l == db
                            sub == H[i][j] + (IF a[i] = b[j] THEN 0 ELSE 1)
                            tr  == IF k > 0 /\ l > 0 THEN H[k][l] + (i - k - 1) + 1 + (j - l - 1) ELSE big
                            d   == Min2(Min2(sub, cur[j] + 1), Min2(H[i][j + 1] + 1, tr))
                        IN Cols(Append(cur, d), j + 1, IF a[i] = b[j] THEN j ELSE db)
             IN Rows(Append(H, Cols(<<i>>, 1, 0)), i + 1, [c \in (DOMAIN da) \cup {a[i]} |-> IF c = a[i] THEN i ELSE da[c]])
  IN Rows(<<[j \in 1..(m + 1) |-> j - 1]>>, 1, <<>>)
=============================================================================
