---------------------------- MODULE GEN_WordMatch ----------------------------
(* Case generation for the word matcher (specification -> implementation): every    *)
(* pair of words up to MaxLen over a small alphabet with every character class,     *)
(* every stem of the record word and of the query word, finished and unfinished     *)
(* query - the stemmer is an oracle, so the real `word_match` is exercised with all  *)
(* the stems it could ever be handed.  The harness calls the real word_match (`wm`)  *)
(* on these literal words; TV_Comp compares the result with WordMatch.tla.           *)
EXTENDS Base, SequencesExt, Json, IOUtils
CONSTANTS NSym, MaxLen

ClassOfSym(x) == CASE x = 1 -> "V" [] x = 2 -> "C" [] x = 3 -> "A" [] OTHER -> "N"
Ch(x) == 96 + x
Words == UNION { [1..n -> 1..NSym] : n \in 1..MaxLen }
Text1(w, stem, fin) ==
  [chars |-> [i \in DOMAIN w |-> Ch(w[i])], source |-> [i \in DOMAIN w |-> Ch(w[i])],
   classes |-> [i \in DOMAIN w |-> ClassOfSym(w[i])],
   words |-> <<[offset |-> 0, s |-> 0, e |-> Len(w), stem |-> stem, fin |-> fin, func |-> FALSE]>>]

Cases == { [rt |-> Text1(w, rs, TRUE), qt |-> Text1(v, qs, fin)] :
             w \in Words, v \in Words, rs \in 1..MaxLen, qs \in 1..MaxLen, fin \in BOOLEAN }
Valid(c) == c.rt.words[1].stem <= Len(c.rt.chars) /\ c.qt.words[1].stem <= Len(c.qt.chars)
             /\ Abs(Len(c.rt.chars) - Len(c.qt.chars)) <= 2

ASSUME ndJsonSerialize(IOEnv.GEN_OUT, SetToSeq({ c \in Cases : Valid(c) }))
ASSUME PrintT(<<"GEN-COUNT", Cardinality({ c \in Cases : Valid(c) })>>)
=============================================================================
