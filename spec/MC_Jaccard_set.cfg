SPECIFICATION Spec
CONSTANTS
  MaxLen = 3
  MaxCalls = 1
  NSym = 3
INVARIANTS TrueSimilarity SetOnly
CHECK_DEADLOCK FALSE
