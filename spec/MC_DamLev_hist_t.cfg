SPECIFICATION Spec
CONSTANTS
  MaxLen = 3
  MaxCalls = 2
  NSym = 2
  InitCap = 1
INVARIANTS HistoryFree PrefixCells InBoundsAll SizeOk
CHECK_DEADLOCK FALSE
