SPECIFICATION Spec
CONSTANTS
  NSym = 3
  MinLen = 5
  MaxLen = 5
  Mode = "edit"
  Stems = "corners"
INVARIANTS Found SharesGram ScoreSafe
CHECK_DEADLOCK FALSE
