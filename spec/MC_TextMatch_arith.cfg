SPECIFICATION Spec
CONSTANTS
  NSym = 3
  MaxWord = 3
  Mode = "arith"
INVARIANTS ArithSafe Markup
CHECK_DEADLOCK FALSE
