CONSTANTS
  MaxLen = 5
