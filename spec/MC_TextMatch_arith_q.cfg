SPECIFICATION Spec
CONSTANTS
  NSym = 2
  MaxWord = 2
  Mode = "arith"
INVARIANTS ArithSafe Markup
CHECK_DEADLOCK FALSE
