SPECIFICATION Spec
CONSTANTS
  CapFactor = 1
  Variant = "fixed"
  MaxSteps = 6
  Ids = {1, 2}
  Eval <- MEval
  QWords <- MQWords
  QGrams <- MQGrams
INVARIANTS Isolation LastResult FreshStart
CHECK_DEADLOCK FALSE
