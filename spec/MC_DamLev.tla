----------------------------- MODULE MC_DamLev -----------------------------
(* L1 for C16 / C19: the persistent matrix machine, started with a tiny capacity so  *)
(* that growth happens within the bound, driven by every sequence of up to MaxCalls  *)
(* calls on words over a small alphabet with every character class.                 *)
EXTENDS DamLev
CONSTANTS MaxLen, MaxCalls, NSym, InitCap

ClassOfSym(x) == CASE x = 1 -> "V" [] x = 2 -> "C" [] x = 3 -> "N" [] OTHER -> "A"
Cls(w) == [i \in DOMAIN w |-> ClassOfSym(w[i])]
AnyCls(w) == [i \in DOMAIN w |-> "A"]
Words == UNION { [1..n -> 1..NSym] : n \in 0..MaxLen }
D(a, b) == Distance(a, Cls(a), b, Cls(b))

VARIABLES mx, calls, w1, w2, res, acc, pend     \* pend: the first word of the call being set up (two steps per call,
vars == <<mx, calls, w1, w2, res, acc, pend>>   \* so that TLC's workers share the evaluation)
Init == mx = NewMatrix(InitCap + 2) /\ calls = 0 /\ w1 = <<>> /\ w2 = <<>> /\ res = 0 /\ acc = {} /\ pend = <<>>
Next == \/ /\ pend = <<>> /\ calls < MaxCalls
           /\ \E a \in Words : pend' = <<a>>
           /\ UNCHANGED <<mx, calls, w1, w2, res, acc>>
        \/ /\ pend # <<>>
           /\ calls' = calls + 1 /\ pend' = <<>>
           /\ \E b \in Words :
                LET a == pend[1]
                    s == DLStep(mx, a, Cls(a), b, Cls(b)) IN
                mx' = s.mx /\ res' = s.result /\ acc' = s.acc /\ w1' = a /\ w2' = b
Spec == Init /\ [][Next]_vars

\* C16: the value does not depend on what was compared before; prefix cells are prefix distances
HistoryFree == calls > 0 => res = D(w1, w2)
PrefixCells == calls > 0 => \A i \in 0..Len(w1), j \in 0..Len(w2) :
                  mx.raw[<<i + 1, j + 1>>] = D(SubSeq(w1, 1, i), SubSeq(w2, 1, j))
\* C16: laws
Laws == calls > 0 =>
          /\ (res = 0 <=> w1 = w2)
          /\ res = D(w2, w1)
          /\ res <= 2 * Lev(w1, w2)
          /\ res >= UDL(w1, w2)
          /\ res <= Distance(w1, AnyCls(w1), w2, AnyCls(w2))
\* C19: row and column below the current dimension at every unchecked access
InBoundsAll == \A a \in acc : InBounds(a)
\* the growth rule keeps the matrix large enough for the words just compared
SizeOk == calls > 0 => mx.size >= Max2(Len(w1), Len(w2)) + 2
=============================================================================
