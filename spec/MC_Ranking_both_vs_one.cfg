SPECIFICATION Spec
CONSTANTS
  ULen = 5
  XLen = 3
  Scenario = "both_vs_one"
INVARIANT Priority
CHECK_DEADLOCK FALSE
