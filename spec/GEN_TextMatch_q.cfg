CONSTANTS
  NSym = 2
  MaxWord = 2
  MaxStems = "corners"
