SPECIFICATION Spec
CONSTANTS
  CapFactor = 1
  Variant = "pinned"
  MaxSteps = 5
  Titles <- MTitles
  Ratings = {1, 2}
  Limits = {0, 1, 2}
  Queries <- MQueries
  Eval <- MEval
  QWords <- MQWords
  QGrams <- MQGrams
INVARIANTS C10NoStale
CHECK_DEADLOCK FALSE
