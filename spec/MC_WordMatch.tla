---------------------------- MODULE MC_WordMatch ----------------------------
(* L1 for the word-level statements of C03 and C04 and for the unsigned arithmetic  *)
(* of an unsplit match (C01): every word over a small alphabet with every character *)
(* class, every stem the (unspecified) stemmer could return for the record word and *)
(* for the query word.                                                              *)
EXTENDS WordMatch, Trigram
CONSTANTS NSym, MinLen, MaxLen, Mode,     \* Mode: "edit" (C04) or "prefix" (C03)
          Stems                           \* "all": every stem 1..len; "corners": only 1 and len (quick tier)

ClassOfSym(x) == CASE x = 1 -> "V" [] x = 2 -> "C" [] x = 3 -> "C" [] x = 4 -> "A" [] OTHER -> "N"
Text1(w, stem, fin) ==
  [chars |-> w, classes |-> [i \in DOMAIN w |-> ClassOfSym(w[i])],
   words |-> <<[offset |-> 0, s |-> 0, e |-> Len(w), stem |-> stem, fin |-> fin, func |-> FALSE]>>]

Words == UNION { [1..n -> 1..NSym] : n \in MinLen..MaxLen }

\* all single edits of w with letters of the alphabet
Edits(w) ==
  LET n == Len(w) IN
       { [w EXCEPT ![i] = c] : i \in 1..n, c \in 1..NSym }
  \cup { SubSeq(w, 1, i) \o <<c>> \o SubSeq(w, i + 1, n) : i \in 0..n, c \in 1..NSym }
  \cup { Without(w, i) : i \in 1..n }
  \cup { [w EXCEPT ![i] = w[i + 1], ![i + 1] = w[i]] : i \in 1..(n - 1) }
Prefixes(w) == { SubSeq(w, 1, k) : k \in 1..Len(w) }

VARIABLES stage, w, v
vars == <<stage, w, v>>
Init == stage = 0 /\ w = <<>> /\ v = <<>>
Next == \/ stage = 0 /\ w' \in Words /\ v' = <<>> /\ stage' = 1
        \/ stage = 1 /\ stage' = 2 /\ UNCHANGED w
           /\ v' \in (IF Mode = "edit" THEN Edits(w) \ {w} ELSE Prefixes(w))
Spec == Init /\ [][Next]_vars

StemsOf(n) == IF Stems = "all" THEN 1..n ELSE {1, n}
Qualifies == Mode = "prefix" \/ Cardinality(SeqRange(w)) >= 3

\* the record word is found whatever the two stems are
Found == (stage = 2 /\ Qualifies) =>
           \A rs \in StemsOf(Len(w)), qs \in StemsOf(Len(v)) :
              WordMatch(Text1(w, rs, TRUE), Text1(w, rs, TRUE).words[1], Text1(v, qs, FALSE), Text1(v, qs, FALSE).words[1]) # <<>>
\* the index offers the record as a candidate
SharesGram == (stage = 2 /\ Qualifies) => Grams(w) \cap Grams(v) # {}
\* `match_len - 2 * ceil(typos)` of an unsplit match never underflows (text.rs)
ScoreSafe == (stage = 2) =>
           \A rs \in StemsOf(Len(w)), qs \in StemsOf(Len(v)), fin \in BOOLEAN :
              LET m == WordMatch(Text1(w, rs, TRUE), Text1(w, rs, TRUE).words[1], Text1(v, qs, fin), Text1(v, qs, fin).words[1]) IN
              m = <<>> \/ (MatchScoreSafe(m[1].r) /\ m[1].r.sub <= Len(w) /\ m[1].q.sub <= Len(v) /\ m[1].r.sub >= 1)
\* beyond the listed properties: typing one more correct letter never shortens the matched part of the record word
\* (search-as-you-type highlights grow monotonically), for own-length stems
Monotone == (stage = 2 /\ Mode = "prefix" /\ Len(v) < Len(w)) =>
              LET T(p) == Text1(p, Len(p), FALSE)
                  R == Text1(w, Len(w), TRUE)
                  m1 == WordMatch(R, R.words[1], T(v), T(v).words[1])
                  v2 == SubSeq(w, 1, Len(v) + 1)
                  m2 == WordMatch(R, R.words[1], T(v2), T(v2).words[1])
              IN m1 # <<>> /\ m2 # <<>> /\ m1[1].r.sub <= m2[1].r.sub /\ m1[1].r.t10 = 0 /\ m2[1].r.t10 = 0
=============================================================================
