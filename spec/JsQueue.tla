------------------------------- MODULE JsQueue -------------------------------
(* The set-up queue of one LucidSuggest instance (javascript/src/index.js):          *)
(*                                                                                  *)
(*   setup(fn) { this.setupQueue = this.setupQueue.then(async wasm => {             *)
(*                   await fn(wasm)                                                 *)
(*                   this.setupQueue = Promise.resolve(wasm)     // (R)             *)
(*                   return wasm })                                                 *)
(*               return this.setupQueue }                                           *)
(*   async search(q) { const wasm = await this.setupQueue; wasm.run_search(...) }   *)
(*                                                                                  *)
(* Every set-up method (constructor, addRecords, setLimit) is a link of a promise    *)
(* chain; link k starts when link k-1 has finished.  search() is not a link: it      *)
(* waits for whatever `this.setupQueue` pointed at when it was called.               *)
(* Line (R) re-points the field at an already resolved promise when a link finishes  *)
(* - also when later links are still pending behind it.  A search called in that     *)
(* window waits for nothing and runs before set-up calls that were issued before it. *)
(* This was first seen as a rejected trace of the real class (TV_Binding) and is     *)
(* reproduced here by TLC; Variant = "no_reset" (line (R) dropped) satisfies Fifo.   *)
(*                                                                                  *)
(* Abstraction: user steps and link steps interleave freely (JavaScript's microtask  *)
(* order is one of these interleavings; the counterexample TLC finds is one that     *)
(* node executes, see DESIGN.md 13.10).                                              *)
EXTENDS Naturals, Sequences, FiniteSets

CONSTANTS MaxLinks,        \* set-up calls the user makes
          MaxSearches,     \* searches the user makes
          Variant          \* "code" (with line R) or "no_reset"

Resolved == 0              \* `this.setupQueue` points at a resolved promise
VARIABLES nlinks,          \* links created so far (1..nlinks)
          started,         \* links whose fn has run (its glue calls were made)
          finished,        \* links whose promise is resolved
          queueRef,        \* what this.setupQueue points at: a link number or Resolved
          searches,        \* sequence of [waitsFor, issuedAfter, ran]: per search
          log              \* order in which effects happened: <<"setup", k>> or <<"search", n>>
vars == <<nlinks, started, finished, queueRef, searches, log>>

Init == /\ nlinks = 0 /\ started = {} /\ finished = {} /\ queueRef = Resolved
        /\ searches = <<>> /\ log = <<>>

VARIABLE pred            \* pred[k]: the link (or Resolved) that link k was chained behind
varsAll == <<vars, pred>>

InitAll == Init /\ pred = [k \in 1..MaxLinks |-> Resolved]
\* the user calls a set-up method: a new link, chained behind whatever the field points at
CallSetupAll ==
  /\ nlinks < MaxLinks
  /\ nlinks' = nlinks + 1
  /\ pred' = [pred EXCEPT ![nlinks + 1] = queueRef]
  /\ queueRef' = nlinks + 1
  /\ UNCHANGED <<started, finished, searches, log>>

Ready(k) == pred[k] = Resolved \/ pred[k] \in finished
StartLink(k) ==
  /\ k \in 1..nlinks /\ k \notin started /\ Ready(k)
  /\ started' = started \cup {k}
  /\ log' = Append(log, <<"setup", k>>)
  /\ UNCHANGED <<nlinks, finished, queueRef, searches, pred>>
FinishLink(k) ==
  /\ k \in started /\ k \notin finished
  /\ finished' = finished \cup {k}
  /\ queueRef' = IF Variant = "code" THEN Resolved                       \* line (R)
                 ELSE IF queueRef = k THEN Resolved ELSE queueRef        \* only when nothing was chained behind it
  /\ UNCHANGED <<nlinks, started, searches, log, pred>>

CallSearch ==
  /\ Len(searches) < MaxSearches
  /\ searches' = Append(searches, [waitsFor |-> queueRef, issuedAfter |-> nlinks, ran |-> FALSE])
  /\ UNCHANGED <<nlinks, started, finished, queueRef, log, pred>>
RunSearch(n) ==
  /\ n \in DOMAIN searches /\ ~searches[n].ran
  /\ searches[n].waitsFor = Resolved \/ searches[n].waitsFor \in finished
  /\ searches' = [searches EXCEPT ![n].ran = TRUE]
  /\ log' = Append(log, <<"search", n>>)
  /\ UNCHANGED <<nlinks, started, finished, queueRef, pred>>

Next == \/ CallSetupAll \/ CallSearch
        \/ \E k \in 1..MaxLinks : StartLink(k) \/ FinishLink(k)
        \/ \E n \in 1..MaxSearches : RunSearch(n)
Spec == InitAll /\ [][Next]_varsAll

----------------------------------------------------------------------------
\* set-up calls take effect in the order they were issued
SetupOrder == \A i, j \in DOMAIN log :
                (i < j /\ log[i][1] = "setup" /\ log[j][1] = "setup") => log[i][2] < log[j][2]
\* a search never runs before a set-up call that was issued before it
Fifo == \A n \in DOMAIN searches : searches[n].ran => (1..searches[n].issuedAfter) \subseteq started
=============================================================================
