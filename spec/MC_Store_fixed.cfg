SPECIFICATION Spec
CONSTANTS
  CapFactor = 1
  Variant = "fixed"
  MaxSteps = 4
  Titles <- MTitles
  Ratings = {1, 2}
  Limits = {0, 1, 2}
  Queries <- MQueries
  Eval <- MEval
  QWords <- MQWords
  QGrams <- MQGrams
INVARIANTS C10NoStale C01NoPanic Consistent C06Shape C12Shape C07Perm
CHECK_DEADLOCK FALSE
