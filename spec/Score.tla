-------------------------------- MODULE Score --------------------------------
(* search/score.rs, filter.rs, sort.rs, and the per-record evaluation used by       *)
(* Store::search: text match -> nine scores -> filter -> highlighted title.          *)
(* Scores are compared lexicographically, larger first; the sort key of LimitSort    *)
(* (smaller first) is therefore the negated score vector.                            *)
EXTENDS TextMatch, Highlight

SumOver(s, F(_)) == SeqSum([i \in DOMAIN s |-> F(s[i])])

ScoreChars(rm)  == SumOver(rm, LAMBDA m : m.sub - 2 * m.ct)                  \* signed after the repair
ScoreCharsSafeUnsigned(rm) == \A i \in DOMAIN rm : MatchScoreSafe(rm[i])     \* what the pinned usize arithmetic needed
ScoreWords(rm)  == Len(SelectSeq(rm, LAMBDA m : ~m.func))
ScoreTails(rm)  == -SumOver(rm, LAMBDA m : (m.e - m.s) - m.sub)
TailsSafe(rm)   == \A i \in DOMAIN rm : NoUnderflow(rm[i].e - rm[i].s, rm[i].sub)
ScoreTrans(rm)  == IF rm = <<>> THEN 0
                   ELSE -SumOver([i \in 1..(Len(rm) - 1) |-> Abs((rm[i].offset + 1) - rm[i + 1].offset)], LAMBDA x : x)
ScoreFin(rm)    == IF rm = <<>> THEN 1 ELSE (IF Last(rm).fin THEN 1 ELSE 0)
ScoreOffset(rm) == IF rm = <<>> THEN 0 ELSE -(CHOOSE o \in { rm[i].offset : i \in DOMAIN rm } : \A i \in DOMAIN rm : o <= rm[i].offset)
ScoreWordLen(t) == -Len(t.words)
ScoreCharLen(t) == -SumOver(t.words, LAMBDA w : w.e - w.s)

Scores(rt, rating, tm) ==
  << ScoreChars(tm.rm), ScoreWords(tm.rm), ScoreTails(tm.rm), ScoreTrans(tm.rm), ScoreFin(tm.rm),
     ScoreOffset(tm.rm), rating, ScoreWordLen(rt), ScoreCharLen(rt) >>

\* filter::hit_matches
Passes(qt, tm) ==
  IF Len(qt.words) = 0 THEN TRUE
  ELSE IF Len(tm.rm) = 0 THEN FALSE
  ELSE IF Len(tm.rm) = 1 /\ Len(tm.qm) = 1 /\ Len(qt.words) > 1
         THEN ~(~tm.rm[1].fin /\ 2 * (tm.qm[1].e - tm.qm[1].s) < (tm.rm[1].e - tm.rm[1].s))
  ELSE TRUE

\* sort::compare_hits as a LimitSort key
KeyOf(scores) == [i \in DOMAIN scores |-> -scores[i]]

\* everything Store::search derives from one record and the tokenised query
EvalRecord(rt, rating, qt, left, right) ==
  LET tm == TextMatch(rt, qt)
      sc == Scores(rt, rating, tm)
  IN [pass |-> Passes(qt, tm), key |-> KeyOf(sc), scores |-> sc, tm |-> tm,
      title |-> Render(rt.source, rt.words, tm.rm, left, right),
      safe |-> tm.safe /\ TailsSafe(tm.rm)]
=============================================================================
