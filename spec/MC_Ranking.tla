----------------------------- MODULE MC_Ranking -----------------------------
(* L1 for C08 and C07 on the full pipeline model: the documented ranking priorities  *)
(* are decided by a score component that precedes the rating (so they hold whatever  *)
(* the ratings are), for every u, v over disjoint two-letter alphabets and filler x; *)
(* and a record's score vector depends on nothing but the record and the query.      *)
EXTENDS Score
CONSTANTS ULen, XLen, Scenario

ClassOfSym(x) == CASE x \in {1, 3, 5} -> "V" [] x \in {2, 4} -> "C" [] OTHER -> "A"
SEP == 32
\* a text from words [w, func], single separators; isQuery: last word unfinished
MkText(ws, isQuery) ==
  LET RECURSIVE Build(_, _, _, _)
      Build(i, chars, words, pos) ==
        IF i > Len(ws) THEN [chars |-> chars, words |-> words]
        ELSE LET s == pos + (IF i = 1 THEN 0 ELSE 1)
                 e == s + Len(ws[i].w)
             IN Build(i + 1, chars \o (IF i = 1 THEN <<>> ELSE <<SEP>>) \o ws[i].w,
                      Append(words, [offset |-> i - 1, s |-> s, e |-> e, stem |-> Len(ws[i].w),
                                     fin |-> ~(isQuery /\ i = Len(ws)), func |-> ws[i].func]), e)
      b == Build(1, <<>>, <<>>, 0)
  IN [chars |-> b.chars, source |-> b.chars, words |-> b.words,
      classes |-> [k \in DOMAIN b.chars |-> IF b.chars[k] = SEP THEN "N" ELSE ClassOfSym(b.chars[k])]]
W(w) == [w |-> w, func |-> FALSE]
F(w) == [w |-> w, func |-> TRUE]

Us == [1..ULen -> {1, 2}]
Vs == [1..ULen -> {3, 4}]
Xs == [1..XLen -> {5, 6}]
EditsIn(w, alphabet) ==
  LET n == Len(w) IN
       { [w EXCEPT ![i] = c] : i \in 1..n, c \in alphabet }
  \cup { SubSeq(w, 1, i) \o <<c>> \o SubSeq(w, i + 1, n) : i \in 0..n, c \in alphabet }
  \cup { Without(w, i) : i \in 1..n } \cup { [w EXCEPT ![i] = w[i + 1], ![i + 1] = w[i]] : i \in 1..(n - 1) }

\* a case: titles A, B (sequences of words), query words Q
CasesOf(u) ==
  CASE Scenario = "exact_vs_typo" -> { [a |-> <<W(u)>>, b |-> <<W(t)>>, q |-> <<W(u)>>] : t \in EditsIn(u, {1, 2}) \ {u} }
    [] Scenario = "both_vs_one"   -> UNION { { [a |-> <<W(u), W(v)>>, b |-> bb, q |-> <<W(u), W(v)>>]
                                               : bb \in { <<W(u)>>, <<W(v)>> } \cup { <<W(u), W(x)>> : x \in Xs } \cup { <<W(x), W(v)>> : x \in Xs } } : v \in Vs }
    [] Scenario = "short_vs_long" -> UNION { { [a |-> <<W(u)>>, b |-> <<W(u \o ext)>>, q |-> <<W(SubSeq(u, 1, k))>>]
                                               : k \in 1..Len(u) } : ext \in UNION { [1..n -> {1, 2}] : n \in 1..2 } }
    [] Scenario = "word_order"    -> { [a |-> <<W(u), W(v), W(x)>>, b |-> <<W(u), W(x), W(v)>>, q |-> <<W(u), W(v)>>] : v \in Vs, x \in Xs }
    [] Scenario = "position"      -> { [a |-> <<W(u), W(x)>>, b |-> <<W(x), W(u)>>, q |-> <<W(u)>>] : x \in Xs }
    [] Scenario = "length"        -> { [a |-> <<W(u)>>, b |-> <<W(u), W(x)>>, q |-> <<W(u)>>] : x \in Xs }
    [] OTHER \* "function": f is a short function word; a content word starting with f against a title containing f
                                  -> UNION { { [a |-> <<W(f \o suf)>>, b |-> bb, q |-> <<F(f)>>]
                                               : bb \in { <<F(f), W(x)>> : x \in Xs } \cup { <<W(x), F(f)>> : x \in Xs } }
                                             : f \in { SubSeq(u, 1, k) : k \in 1..3 }, suf \in UNION { [1..n -> {1, 2}] : n \in 2..3 } }

VARIABLES stage, u, c
vars == <<stage, u, c>>
Init == stage = 0 /\ u = <<>> /\ c = <<>>
Next == \/ stage = 0 /\ stage' = 1 /\ u' \in Us /\ c' = <<>>
        \/ stage = 1 /\ stage' = 2 /\ c' \in CasesOf(u) /\ UNCHANGED u
Spec == Init /\ [][Next]_vars

EvA == EvalRecord(MkText(c.a, FALSE), 0, MkText(c.q, TRUE), <<SL>>, <<SR>>)
EvB == EvalRecord(MkText(c.b, FALSE), 0, MkText(c.q, TRUE), <<SL>>, <<SR>>)
\* A is ahead of B by a component that comes before the rating (components 1..6)
AheadBeforeRating(a, b) == \E k \in 1..6 : a[k] > b[k] /\ \A j \in 1..(k - 1) : a[j] = b[j]
\* A and B tie on everything before the rating, and A wins on what follows it (word count, then characters)
TieThenShorter(a, b)    == (\A j \in 1..6 : a[j] = b[j]) /\ (a[8] > b[8] \/ (a[8] = b[8] /\ a[9] > b[9]))

Priority == stage = 2 =>
              /\ EvA.pass
              /\ (EvB.pass =>
                    IF Scenario = "length" THEN TieThenShorter(EvA.scores, EvB.scores)
                    ELSE AheadBeforeRating(EvA.scores, EvB.scores))
\* sensitivity probe (expected to be violated): B is never a hit, i.e. the comparison above would be vacuous
BNeverPasses == stage = 2 => ~EvB.pass
=============================================================================
