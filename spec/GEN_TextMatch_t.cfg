CONSTANTS
  NSym = 3
  MaxWord = 2
  MaxStems = "all"
