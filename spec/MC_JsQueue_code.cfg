SPECIFICATION Spec
CONSTANTS
  MaxLinks = 4
  MaxSearches = 2
  Variant = "code"
INVARIANTS SetupOrder Fifo
CHECK_DEADLOCK FALSE
