SPECIFICATION Spec
CONSTANTS
  NSym = 4
  MinLen = 1
  MaxLen = 6
  Mode = "prefix"
  Stems = "all"
INVARIANTS Found SharesGram ScoreSafe Monotone
CHECK_DEADLOCK FALSE
