SPECIFICATION Spec
CONSTANTS
  NSym = 4
  MinLen = 1
  MaxLen = 6
  Mode = "prefix"
INVARIANTS Found SharesGram ScoreSafe
CHECK_DEADLOCK FALSE
