SPECIFICATION Spec
CONSTANTS
  NSym = 2
  MaxWord = 3
  Mode = "split"
INVARIANTS Found ArithSafe Markup
CHECK_DEADLOCK FALSE
