------------------------------ MODULE MC_System ------------------------------
(* L1 end to end: two store ids, titles and queries that are tokenised model texts  *)
(* (words over two letters, every gap, unfinished last query word), every valid      *)
(* history up to MaxSteps calls.  Checked on every reachable state:                  *)
(*   C20  isolation / last result / fresh start;                                     *)
(*   C10  every search outcome is an outcome of the rebuilt store;                   *)
(*   C06  outcomes are top-`limit` selections of the records' own verdicts;          *)
(*   C01  no candidate position without a record;                                    *)
(*   C03/C13 in context: a record whose title is the query, in a store within its    *)
(*        limit, is among the hits.                                                  *)
EXTENDS System
CONSTANTS MaxSteps, Ids

SEP == 32
Txt(ws, isQuery) ==
  LET RECURSIVE Build(_, _, _, _)
      Build(i, chars, words, pos) ==
        IF i > Len(ws) THEN [chars |-> chars, words |-> words]
        ELSE LET s == pos + (IF i = 1 THEN 0 ELSE 1)
                 e == s + Len(ws[i])
             IN Build(i + 1, chars \o (IF i = 1 THEN <<>> ELSE <<SEP>>) \o ws[i],
                      Append(words, [offset |-> i - 1, s |-> s, e |-> e, stem |-> Len(ws[i]),
                                     fin |-> ~(isQuery /\ i = Len(ws)), func |-> FALSE]), e)
      b == Build(1, <<>>, <<>>, 0)
  IN [chars |-> b.chars, source |-> b.chars, words |-> b.words,
      classes |-> [k \in DOMAIN b.chars |-> IF b.chars[k] = SEP THEN "N" ELSE IF b.chars[k] = 1 THEN "V" ELSE "C"]]

MTitles  == { <<<<1, 2>>>>, <<<<2, 1>>>>, <<<<1, 2>>, <<2>>>> }
MQueries == { <<>>, <<<<1>>>>, <<<<1, 2, 2>>>>, <<<<2>>, <<1, 2>>>> }

VARIABLES reg, steps, prev, lastOp
vars == <<reg, steps, prev, lastOp>>
NoOp(id) == [id |-> id, search |-> FALSE, expected |-> {}]
Init == reg = NoRegistry /\ steps = 0 /\ prev = NoRegistry /\ lastOp = NoOp(0)
Next ==
  /\ steps < MaxSteps /\ steps' = steps + 1 /\ prev' = reg
  /\ \E id \in Ids :
       \/ ~Known(reg, id) /\ reg' = R_Create(reg, id, "none") /\ lastOp' = NoOp(id)
       \/ Known(reg, id) /\ reg' = R_Destroy(reg, id) /\ lastOp' = NoOp(id)
       \/ Known(reg, id) /\ \E t \in MTitles, rt \in {1, 2} :
             reg' = R_Add(reg, id, reg[id].s.nextIx + 1, Txt(t, FALSE).chars, rt, Txt(t, FALSE)) /\ lastOp' = NoOp(id)
       \/ Known(reg, id) /\ \E n \in {1, 2} : reg' = R_SetLimit(reg, id, n) /\ lastOp' = NoOp(id)
       \/ Known(reg, id) /\ \E q \in MQueries : \E res \in S_SearchOutcomes(reg[id].s, Txt(q, TRUE)) :
             /\ reg' = R_RunSearch(reg, id, res)
             /\ lastOp' = [id |-> id, search |-> TRUE, expected |-> { o.hits : o \in FreshOutcomes(reg[id].s, Txt(q, TRUE)) }]
Spec == Init /\ [][Next]_vars

Isolation  == Frame(prev, reg, lastOp.id, lastOp.search)
LastResult == lastOp.search => reg[lastOp.id].buf \in lastOp.expected
FreshStart == (lastOp.id \in DOMAIN reg /\ lastOp.id \notin DOMAIN prev) => reg[lastOp.id].buf = <<>> /\ reg[lastOp.id].s = NewStore
PerStore   == \A id \in DOMAIN reg : \A q \in MQueries :
                LET s == reg[id].s  Q == Txt(q, TRUE) IN
                /\ NoStaleState(s, Q) /\ NoPanic(s, Q) /\ IndexConsistent(s)
                /\ \A o \in Outs(s, Q) :
                     /\ Len(o.hits) <= s.limit
                     /\ (Len(s.records) <= CapFactor * s.limit => o \in IdealOutcomes(s, Q))
                     \* C05 in context: every hit shares a gram with the query
                     /\ \A k \in DOMAIN o.hits :
                          LET rec == CHOOSE rr \in SeqRange(s.records) : rr.id = o.hits[k].id
                          IN q # <<>> => GramSet(rec.tok) \cap GramSet(Q) # {}
                     \* typing a title's first word, or the whole title, finds it when the store is within its limit
                     /\ (Len(s.records) <= s.limit /\ q # <<>> =>
                           \A i \in DOMAIN s.records :
                              (s.records[i].tok.chars = Q.chars \/ (Len(q) = 1 /\ IsPrefixOf(q[1], SubSeq(s.records[i].tok.chars, 1, s.records[i].tok.words[1].e))))
                                => \E k \in DOMAIN o.hits : o.hits[k].id = s.records[i].id)
=============================================================================
