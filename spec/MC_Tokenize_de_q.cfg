SPECIFICATION Spec
CONSTANTS
  Lang = "de"
  MaxLen = 3
  Alphabet <- AlphaDe
  CI <- MCI
INVARIANTS WellFormedBoth VariantsAgree
CHECK_DEADLOCK FALSE
