----------------------------- MODULE MC_Binding -----------------------------
(* Bounded check of the binding-layer lemmas of Binding.tla.                        *)
(*   wire:   every result buffer of at most MaxHits records with ids in 1..3 and    *)
(*           titles of length <= MaxTitle over {a, '{', NUL}, every set of known ids *)
(*   chunks: every plain title of length <= MaxPlain over {a, '{', '}'} with every   *)
(*           list of at most two well-formed spans                                  *)
EXTENDS Binding

CONSTANTS MaxHits, MaxTitle, MaxPlain

SeqsUpTo(S, n) == UNION { [1..k -> S] : k \in 0..n }
Titles   == SeqsUpTo({97, LB, 0}, MaxTitle)
Records  == [id : 1..3, title : Titles]
Buffers  == SeqsUpTo(Records, MaxHits)
Plains   == SeqsUpTo({97, LB, RB}, MaxPlain)
SpanOf(n) == { s \in [a : 0..n, b : 0..n] : s.a < s.b }
SpanLists(p) == { <<>> } \cup { <<s>> : s \in SpanOf(Len(p)) }
                \cup { <<s, t>> : s \in SpanOf(Len(p)), t \in SpanOf(Len(p)) }

VARIABLES kind, known, rs, plain, spans
vars == <<kind, known, rs, plain, spans>>

Init == \/ /\ kind = "wire" /\ known \in SUBSET (1..2) /\ rs \in Buffers /\ plain = <<>> /\ spans = <<>>
        \/ /\ kind = "chunks" /\ known = {} /\ rs = <<>> /\ plain \in Plains /\ spans \in SpanLists(plain)
Next == UNCHANGED vars
Spec == Init /\ [][Next]_vars

InvWire   == kind = "wire" => WireExact(known, rs) /\ EmptyTitleThrows(known, rs)
InvChunks == (kind = "chunks" /\ WellFormedSpans(plain, spans) /\ NoBraceAtAll(plain)) => ChunksExact(plain, spans)
\* the hit's `title` getter re-inserts "[" "]" at the spans (touching spans stay two pairs of brackets apart only if
\* the core emitted them as two; the chunks merge nothing)
InvTitle  == (kind = "chunks" /\ WellFormedSpans(plain, spans) /\ NoBraceAtAll(plain)) =>
               HitTitle(ToChunks(InsertMarkers(plain, spans, OpenM, CloseM)), <<91>>, <<93>>)
                 = InsertMarkers(plain, spans, <<91>>, <<93>>)

\* the precondition of InvChunks is not idle: a single brace next to a span is enough to move a span border, and a
\* brace pair inside the plain title reads as a marker (observations about index.js, not about the core)
ASSUME BraceNextToSpan == ~ChunksExact(<<97, LB, 97>>, <<[a |-> 2, b |-> 3]>>)
ASSUME BracePairInTitle == ~ChunksExact(<<97, LB, LB, 97>>, <<>>)
\* an unknown id is reported before an empty title
ASSUME MissingRecordFirst == JsSearch({1}, <<[id |-> 2, title |-> <<>>]>>).throws = "Missing record"
=============================================================================
