SPECIFICATION Spec
CONSTANTS
  ULen = 5
  XLen = 3
  Scenario = "position"
INVARIANT Priority
CHECK_DEADLOCK FALSE
