SPECIFICATION Spec
CONSTANTS
  NSym = 3
  MinLen = 1
  MaxLen = 5
  Mode = "prefix"
  Stems = "all"
INVARIANTS Found SharesGram ScoreSafe Monotone
CHECK_DEADLOCK FALSE
