SPECIFICATION Spec
CONSTANTS
  NSym = 2
  MaxWord = 2
  Mode = "whole"
INVARIANTS Found ArithSafe Markup
CHECK_DEADLOCK FALSE
