----------------------------- MODULE TVCommon -----------------------------
(* Shared part of the trace specifications: the recorded trace, the character       *)
(* table recorded with it, and the bookkeeping of findings.                          *)
(*                                                                                  *)
(* A trace is the ND-JSON file named by the environment variable TRACE; its last    *)
(* line is the `chartable` event that describes every code point occurring in the   *)
(* trace (Rust's Unicode tables and the crate's punctuation list are trusted, they  *)
(* are not specified).                                                              *)
EXTENDS Tokenize, Json, IOUtils

Rec == ndJsonDeserialize(IOEnv.TRACE)
NRec == Len(Rec)

CTRows == Rec[NRec].rows            \* sorted by code point
RECURSIVE CTFind(_, _, _)
CTFind(c, lo, hi) ==                \* binary search; 0 if absent
  IF lo > hi THEN 0
  ELSE LET mid == (lo + hi) \div 2 IN
       IF CTRows[mid].c = c THEN mid
       ELSE IF CTRows[mid].c < c THEN CTFind(c, mid + 1, hi) ELSE CTFind(c, lo, mid - 1)
CTab == [c \in { CTRows[i].c : i \in DOMAIN CTRows } |->
           LET r == CTRows[CTFind(c, 1, Len(CTRows))] IN
           [alnum |-> r.alnum, alpha |-> r.alpha, white |-> r.white, ctrl |-> r.ctrl, punct |-> r.punct,
            upper |-> r.upper, lower |-> r.lower[1], lowerLen |-> Len(r.lower), upperm |-> r.upperm,
            num |-> r.num, lowercase |-> r.lowercase, cls |-> r.cls]]
Unknown == [alnum |-> FALSE, alpha |-> FALSE, white |-> FALSE, ctrl |-> FALSE, punct |-> FALSE,
            upper |-> FALSE, lower |-> 0, lowerLen |-> 1, upperm |-> <<0>>, num |-> FALSE,
            lowercase |-> FALSE, cls |-> <<>>]
TVCI(c) == IF c \in DOMAIN CTab THEN CTab[c] ELSE [Unknown EXCEPT !.lower = c]

Has(e, f) == f \in DOMAIN e

\* one finding: the trace line, the property (or "L2" for a conformance difference), a short reason
Finding(line, prop, why) == [line |-> line, prop |-> prop, why |-> why]
Check(cond, line, prop, why) == IF cond THEN <<>> ELSE <<Finding(line, prop, why)>>
\* C19: the recorded extents of every unchecked access site
AccFindings(E, line) ==
  IF ~Has(E, "acc") THEN <<>>
  ELSE LET A == E.acc IN
       Check(A.matrix.oob = 0 /\ (A.matrix.n > 0 => A.matrix.max_row < A.matrix.size /\ A.matrix.max_col < A.matrix.size
                                                    /\ A.matrix.size * A.matrix.size <= A.matrix.raw),
             line, "C19", "distance matrix accessed outside its current dimension")
    \o Flatten([k \in DOMAIN A.sites |->
         Check(A.sites[k].oob = 0 /\ A.sites[k].max < A.sites[k].len, line, "C19", "unchecked access out of range")])

=============================================================================
