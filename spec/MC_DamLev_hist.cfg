SPECIFICATION Spec
CONSTANTS
  MaxLen = 2
  MaxCalls = 2
  NSym = 3
  InitCap = 1
INVARIANTS HistoryFree PrefixCells InBoundsAll SizeOk
CHECK_DEADLOCK FALSE
