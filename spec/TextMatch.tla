------------------------------ MODULE TextMatch ------------------------------
(* matching/text.rs: greedy assignment of query words to free record words.         *)
(* For each query word not yet matched, the free record words are scanned in order; *)
(* per record word the code tries, in this order,                                   *)
(*   (a) the record word joined with its successor against the query word,          *)
(*   (b) the record word against the query word joined with its successor,          *)
(*   (c) a plain match, kept as candidate if better (score, then non-function).     *)
(* (a) and (b) commit at once and end the scan; a non-function candidate ends it.   *)
(* Result: [rm, qm] sequences of optional matches indexed by word (the code returns *)
(* the present ones in word order).                                                 *)
EXTENDS WordMatch

TextMatchOpt(rt, qt) ==
  LET nr == Len(rt.words)  nq == Len(qt.words)
      RECURSIVE QLoop(_, _, _, _), RLoop(_, _, _, _, _, _)
      \* RLoop: scan record words j.. for query word i; returns [rm, qm, cand, safe]
      RLoop(i, j, rm, qm, cand, safe) ==
        IF j > nr THEN [rm |-> rm, qm |-> qm, cand |-> cand, safe |-> safe]
        ELSE IF rm[j] # None THEN RLoop(i, j + 1, rm, qm, cand, safe)
        ELSE
          LET rv == rt.words[j]  qv == qt.words[i]
              A == IF j + 1 > nr THEN None
                   ELSE LET rn == rt.words[j + 1] IN
                        IF WLen(qv) < WLen(rv) + Gap(rv, rn) THEN None
                        ELSE IF rm[j + 1] # None THEN None
                        ELSE LET wm == WordMatch(rt, JoinWords(rv, rn), qt, qv) IN
                             IF wm = <<>> THEN None
                             ELSE LET sp == SplitMatch(wm[1].r, rv, rn) IN
                                  IF sp = <<>> THEN None ELSE <<[p1 |-> sp[1], p2 |-> sp[2], q |-> wm[1].q]>>
              B == IF i + 1 > nq THEN None
                   ELSE LET qn == qt.words[i + 1] IN
                        IF WLen(rv) < WLen(qv) + Gap(qv, qn) THEN None
                        ELSE IF qm[i + 1] # None THEN None
                        ELSE LET wm == WordMatch(rt, rv, qt, JoinWords(qv, qn)) IN
                             IF wm = <<>> THEN None
                             ELSE LET sp == SplitMatch(wm[1].q, qv, qn) IN
                                  IF sp = <<>> THEN None ELSE <<[r |-> wm[1].r, p1 |-> sp[1], p2 |-> sp[2]]>>
          IN IF A # None
               THEN [rm |-> [rm EXCEPT ![j] = <<A[1].p1>>, ![j + 1] = <<A[1].p2>>], qm |-> [qm EXCEPT ![i] = <<A[1].q>>],
                     cand |-> None, safe |-> safe]
             ELSE IF B # None
               THEN [rm |-> [rm EXCEPT ![j] = <<B[1].r>>], qm |-> [qm EXCEPT ![i] = <<B[1].p1>>, ![i + 1] = <<B[1].p2>>],
                     cand |-> None, safe |-> safe]
             ELSE LET wm == WordMatch(rt, rv, qt, qv) IN
                  IF wm = <<>> THEN RLoop(i, j + 1, rm, qm, cand, safe)
                  ELSE LET s2 == MatchScore(wm[1].r)
                           s1 == IF cand = None THEN 0 ELSE MatchScore(cand[1].r)
                           ok == safe /\ MatchScoreSafe(wm[1].r)           \* usize arithmetic in text.rs
                           replace == cand = None \/ s1 < s2 \/ (s1 = s2 /\ ~wm[1].r.func)
                       IN IF replace
                            THEN IF ~wm[1].r.func THEN [rm |-> rm, qm |-> qm, cand |-> wm, safe |-> ok]
                                 ELSE RLoop(i, j + 1, rm, qm, wm, ok)
                            ELSE RLoop(i, j + 1, rm, qm, cand, ok)
      QLoop(i, rm, qm, safe) ==
        IF i > nq THEN [rm |-> rm, qm |-> qm, safe |-> safe]
        ELSE IF qm[i] # None THEN QLoop(i + 1, rm, qm, safe)
        ELSE LET r == RLoop(i, 1, rm, qm, None, safe) IN
             IF r.cand = None THEN QLoop(i + 1, r.rm, r.qm, r.safe)
             ELSE QLoop(i + 1, [r.rm EXCEPT ![r.cand[1].r.offset + 1] = <<r.cand[1].r>>],
                               [r.qm EXCEPT ![i] = <<r.cand[1].q>>], r.safe)
  IN QLoop(1, [j \in 1..nr |-> None], [i \in 1..nq |-> None], TRUE)

Present(opts) == LET idx == SelectSeq([i \in DOMAIN opts |-> i], LAMBDA i : opts[i] # None)
                 IN [k \in DOMAIN idx |-> opts[idx[k]][1]]

\* text_match(rtext, qtext): [rm, qm, safe] with the matches in word order
TextMatch(rt, qt) ==
  LET o == TextMatchOpt(rt, qt) IN [rm |-> Present(o.rm), qm |-> Present(o.qm), safe |-> o.safe]
=============================================================================
