----------------------------- MODULE MC_Registry -----------------------------
(* L1 for C20: the registry machine over two ids with the small abstract matcher of *)
(* MC_Store; every valid call sequence up to MaxSteps.                               *)
EXTENDS Registry
CONSTANTS MaxSteps, Ids

MTok(title) == [chars |-> title, words |-> [i \in DOMAIN title |-> [s |-> i - 1, e |-> i]]]
MEval(rec, q, l, r) ==
  LET t == rec.title  shared == Cardinality(SeqRange(t) \cap SeqRange(q)) IN
  [pass |-> (q = <<>>) \/ shared > 0, key |-> <<-shared, -rec.rating, Len(t)>>,
   title |-> Flatten([i \in DOMAIN t |-> IF t[i] \in SeqRange(q) THEN l \o <<t[i]>> \o r ELSE <<t[i]>>])]
MQWords(q) == Len(q)
MQGrams(q) == { <<q[i], 0, 0>> : i \in DOMAIN q }
MTitles == { <<1>>, <<1, 2>> }
MQueries == { <<>>, <<1>> }

VARIABLES reg, steps, prev, lastOp
vars == <<reg, steps, prev, lastOp>>
Init == reg = NoRegistry /\ steps = 0 /\ prev = NoRegistry /\ lastOp = [id |-> 0, search |-> FALSE, expected |-> {}]
Next ==
  /\ steps < MaxSteps /\ steps' = steps + 1 /\ prev' = reg
  /\ \E id \in Ids :
       \/ ~Known(reg, id) /\ reg' = R_Create(reg, id, "none") /\ lastOp' = [id |-> id, search |-> FALSE, expected |-> {}]
       \/ Known(reg, id) /\ reg' = R_Destroy(reg, id) /\ lastOp' = [id |-> id, search |-> FALSE, expected |-> {}]
       \/ Known(reg, id) /\ \E t \in MTitles : reg' = R_Add(reg, id, reg[id].s.nextIx + 1, t, Len(t), MTok(t))
                         /\ lastOp' = [id |-> id, search |-> FALSE, expected |-> {}]
       \/ Known(reg, id) /\ \E n \in {1, 2} : reg' = R_SetLimit(reg, id, n) /\ lastOp' = [id |-> id, search |-> FALSE, expected |-> {}]
       \/ Known(reg, id) /\ reg' = R_Markers(reg, id, <<40>>, <<41>>) /\ lastOp' = [id |-> id, search |-> FALSE, expected |-> {}]
       \/ Known(reg, id) /\ \E q \in MQueries : \E res \in S_SearchOutcomes(reg[id].s, q) :
             /\ reg' = R_RunSearch(reg, id, res)
             \* what a stand-alone store with the same language, records, limit and markers may return
             /\ lastOp' = [id |-> id, search |-> TRUE, expected |-> { o.hits : o \in FreshOutcomes(reg[id].s, q) }]
Spec == Init /\ [][Next]_vars

Isolation   == Frame(prev, reg, lastOp.id, lastOp.search)
LastResult  == lastOp.search => reg[lastOp.id].buf \in lastOp.expected
FreshStart  == (lastOp.id \in DOMAIN reg /\ lastOp.id \notin DOMAIN prev) => reg[lastOp.id].buf = <<>> /\ reg[lastOp.id].s = NewStore
=============================================================================
