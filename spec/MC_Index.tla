------------------------------ MODULE MC_Index ------------------------------
(* L1 for C18 / C19 on the trigram index machine (Trigram.tla): every sequence of up *)
(* to MaxAdds texts from a tiny word set (duplicates, the empty text, one-letter      *)
(* words), every query, sizes 0..2 with the cap factor shrunk to 2, every outcome of  *)
(* the unstable selection.                                                           *)
EXTENDS Trigram
CONSTANTS MaxAdds, CapF

\* texts as sequences of words over letters 1..2
MWords == { <<1>>, <<1, 2>>, <<2, 1, 2>>, <<1, 2, 1>> }
MTexts == { <<>> } \cup { <<w>> : w \in MWords } \cup { <<<<1>>, <<2, 1, 2>>>>, <<<<1, 2>>, <<1, 2>>>> }
TextGrams(t) == UNION { Grams(t[i]) : i \in DOMAIN t }

VARIABLES index, texts
vars == <<index, texts>>
Init == index = EmptyIndex /\ texts = <<>>
Next == /\ Len(texts) < MaxAdds
        /\ \E t \in MTexts : index' = IndexAdd(index, Len(texts), TextGrams(t)) /\ texts' = Append(texts, t)
Spec == Init /\ [][Next]_vars

Shared(q, i) == Cardinality(TextGrams(texts[i + 1]) \cap TextGrams(q))
Sharing(q)   == { i \in 0..(Len(texts) - 1) : Shared(q, i) > 0 }

C18 == \A q \in MTexts \ {<<>>}, size \in 0..2 :
         \A ixs \in PrepareOutcomes(index, Len(q), TextGrams(q), size, CapF) :
            /\ NoDup(ixs)
            /\ \A k \in DOMAIN ixs : InRange(ixs[k], Len(texts)) /\ ixs[k] \in Sharing(q)
            /\ IF Cardinality(Sharing(q)) <= CapF * size THEN SeqRange(ixs) = Sharing(q)
               ELSE /\ Len(ixs) = CapF * size
                    /\ \A k \in 1..(Len(ixs) - 1) : Shared(q, ixs[k]) >= Shared(q, ixs[k + 1])
                    /\ \A o \in Sharing(q) \ SeqRange(ixs) : \A k \in DOMAIN ixs : Shared(q, o) <= Shared(q, ixs[k])
EmptyQuery == \A size \in 0..2 : PrepareOutcomes(index, 0, {}, size, CapF) = { <<>> }
PostingsOk == \A g \in DOMAIN index.dict : \A k \in 1..Len(index.dict[g]) :
                 /\ InRange(index.dict[g][k], index.len)
                 /\ (k > 1 => index.dict[g][k - 1] < index.dict[g][k])
C19Counters == \A q \in MTexts : CountersInRange(index, TextGrams(q))
=============================================================================
