SPECIFICATION TvSpec
CONSTANTS
  CI <- TVCI
INVARIANT Report
POSTCONDITION Consumed
CHECK_DEADLOCK FALSE
