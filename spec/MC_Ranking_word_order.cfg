SPECIFICATION Spec
CONSTANTS
  ULen = 5
  XLen = 3
  Scenario = "word_order"
INVARIANT Priority
CHECK_DEADLOCK FALSE
