----------------------------- MODULE TV_Binding -----------------------------
(* Trace validation of the binding layer (Binding.tla).  One trace line per case:   *)
(*   script   the scripted use of the LucidSuggest class (ops: new, addRecords,     *)
(*            setLimit, search, destroy; mode "await" or "burst")                   *)
(*   glue     per search: the core's result buffer and what the real glue functions *)
(*            get_result_ids / get_result_titles returned for it (native build)     *)
(*   calls    the glue calls the real index.js made, in the order it made them      *)
(*   outs     what each search() of index.js resolved to (or the error it threw)    *)
(* Checked: the glue's wire format, the call sequence per instance, the decoded     *)
(* hits and chunks - all against the operators of Binding.tla.                      *)
EXTENDS Binding, Json, IOUtils

Rec  == ndJsonDeserialize(IOEnv.TRACE)
NRec == Len(Rec)
Has(e, f) == f \in DOMAIN e

VARIABLES l, findings, cnt
vars == <<l, findings, cnt>>

E == Rec[l]
Finding(line, what, why) == [line |-> line, prop |-> what, why |-> why]
Check(cond, what, why) == IF cond THEN <<>> ELSE <<Finding(l, what, why)>>

\* store id of an instance: construction ordinal (index.js: NEXT_ID counts up from 1 per module instance)
NewOps   == SelectSeq(E.script, LAMBDA o : o.op = "new")
IdOf(inst) == CHOOSE k \in DOMAIN NewOps : NewOps[k].inst = inst
Insts    == { NewOps[k].inst : k \in DOMAIN NewOps }

Call(name, id, nums, texts) == [name |-> name, id |-> id, nums |-> nums, texts |-> texts]
Rating(r) == IF Has(r, "rating") THEN r.rating ELSE 0
ExpectedOf(o) ==
  LET id == IdOf(o.inst) IN
  CASE o.op = "new"        -> <<Call("create_store", id, <<>>, <<>>), Call("highlight_with", id, <<>>, <<OpenM, CloseM>>)>>
    [] o.op = "addRecords" -> [k \in DOMAIN o.records |-> Call("add_record", id, <<o.records[k].id, Rating(o.records[k])>>, <<o.records[k].title>>)]
    [] o.op = "setLimit"   -> <<Call("set_limit", id, <<o.limit>>, <<>>)>>
    [] o.op = "search"     -> <<Call("run_search", id, <<>>, <<o.q>>), Call("get_result_ids", id, <<>>, <<>>), Call("get_result_titles", id, <<>>, <<>>)>>
    [] o.op = "destroy"    -> <<Call("destroy_store", id, <<>>, <<>>)>>
    [] OTHER -> <<>>
Expected(ops) == Flatten([k \in DOMAIN ops |-> ExpectedOf(ops[k])])

\* What index.js guarantees about order, as observed and then read off its code:
\*  - the set-up methods of one instance (constructor, addRecords, setLimit, destroy) form a promise chain: their glue calls
\*    happen in the order the methods were called, awaited or not;
\*  - search() is not a link of that chain: it waits for the chain as it stood when it was called and then makes its three
\*    glue calls in one go - never before a set-up method called before it, but possibly after ones called later when the
\*    caller did not await the search (the first version of this specification claimed plain per-instance order; a trace
\*    of the real class with some calls awaited and others not refuted it);
\*  - with every call awaited all calls of all instances happen in program order, except destroy(), which returns nothing
\*    to await.
IsSearchCall(c) == c.name \in {"run_search", "get_result_ids", "get_result_titles"}
NoDestroyCalls(cs) == SelectSeq(cs, LAMBDA c : c.name # "destroy_store")
NoDestroyOps(os)   == SelectSeq(os, LAMBDA o : o.op # "destroy")
InstCalls(k)  == SelectSeq(E.calls, LAMBDA c : c.id = k)
InstOps(k)    == SelectSeq(E.script, LAMBDA o : o.inst = NewOps[k].inst)
StrictOrder(k) == InstCalls(k) = Expected(InstOps(k))
Structure(k) ==          \* set-up calls in order; every search is its three calls in one go, with its own query
  LET C  == InstCalls(k)  O == InstOps(k)
      runs == SelectSeq([i \in DOMAIN C |-> i], LAMBDA i : C[i].name = "run_search")
      sops == SelectSeq([i \in DOMAIN O |-> i], LAMBDA i : O[i].op = "search")
  IN /\ SelectSeq(C, LAMBDA c : ~IsSearchCall(c)) = Expected(SelectSeq(O, LAMBDA o : o.op # "search"))
     /\ Len(runs) = Len(sops)
     /\ \A m \in DOMAIN runs :
           /\ runs[m] + 2 <= Len(C)
           /\ C[runs[m] + 1].name = "get_result_ids" /\ C[runs[m] + 2].name = "get_result_titles"
           /\ C[runs[m]].texts = <<O[sops[m]].q>>
SearchNotEarly(k) ==     \* JsQueue.tla, Fifo: no search before a set-up call that was issued before it
  LET C  == InstCalls(k)  O == InstOps(k)
      runs == SelectSeq([i \in DOMAIN C |-> i], LAMBDA i : C[i].name = "run_search")
      sops == SelectSeq([i \in DOMAIN O |-> i], LAMBDA i : O[i].op = "search")
      setupsBefore(pos) == Len(SelectSeq(SubSeq(C, 1, pos - 1), LAMBDA c : ~IsSearchCall(c)))
      owedBefore(j)     == Len(Expected(SelectSeq(SubSeq(O, 1, j - 1), LAMBDA o : o.op # "search")))
  IN \A m \in DOMAIN runs : m \in DOMAIN sops => setupsBefore(runs[m]) >= owedBefore(sops[m])
AllStrict == \A k \in DOMAIN NewOps : StrictOrder(k)
CallFindings ==
  Flatten([k \in DOMAIN NewOps |->
     Check(Structure(k), "BIND-calls", "set-up calls of one instance out of order, or a search that is not its three calls in one go")
     \o (IF Structure(k) THEN Check(SearchNotEarly(k), "BIND-search-early", "a search ran before a set-up call that was issued before it") ELSE <<>>)])
  \o (IF E.mode = "await"
      THEN Check(NoDestroyCalls(E.calls) = Expected(NoDestroyOps(E.script)), "BIND-calls",
                 "awaited methods of different instances did not take effect in program order")
         \o Check(AllStrict, "BIND-calls", "awaited methods of one instance did not take effect in program order")
      ELSE <<>>)

\* the searches of the script, in order, with the ids the instance knew when the search was issued
SearchIx == { k \in DOMAIN E.script : E.script[k].op = "search" }
KnownAt(k) == UNION { { E.script[j].records[r].id : r \in DOMAIN E.script[j].records } :
                      j \in { j \in 1..(k - 1) : E.script[j].op = "addRecords" /\ E.script[j].inst = E.script[k].inst } }
NthSearch(n) == CHOOSE k \in SearchIx : Cardinality({ j \in SearchIx : j < k }) = n - 1

WireFindings ==
  Flatten([n \in DOMAIN E.glue |->
    LET g == E.glue[n] IN
    Check(g.wire_ids = WireIds(g.results), "BIND-wire", "get_result_ids differs from the ids of the result buffer")
    \o Check(g.wire_titles = WireTitles(g.results), "BIND-wire", "get_result_titles is not every title followed by NUL")
    \o Check(\A i \in DOMAIN g.results : 0 \notin SeqRange(g.results[i].title), "C02", "a returned title contains NUL")])

DecodeFindings ==
  IF ~AllStrict THEN <<>>
  ELSE IF Len(E.outs) # Len(E.glue) \/ Len(E.glue) # Cardinality(SearchIx) THEN <<Finding(l, "TOOL", "searches, glue answers and outcomes do not line up")>>
  ELSE Flatten([n \in DOMAIN E.glue |->
    LET g == E.glue[n]  o == E.outs[n]
        want == JsDecode(KnownAt(NthSearch(n)), g.wire_ids, g.wire_titles)
    IN Check(o.throws = want.throws, "BIND-decode", "search() throws differently from the specification")
       \o (IF o.throws # "" \/ want.throws # "" THEN <<>>
           ELSE Check(Len(o.hits) = Len(want.hits)
                      /\ \A i \in DOMAIN want.hits : o.hits[i].id = want.hits[i].id /\ o.hits[i].chunks = want.hits[i].chunks,
                      "BIND-decode", "hits or chunks differ from the specification")
             \o Check(\A i \in DOMAIN o.hits : i \in DOMAIN want.hits =>
                         o.hits[i].title = HitTitle(want.hits[i].chunks, <<91>>, <<93>>),
                      "BIND-decode", "Hit.title is not the chunks with [ ] around the highlighted ones"))])

TvNext ==
  /\ l <= NRec
  /\ l' = l + 1
  /\ IF Has(E, "panic") \/ ~Has(E, "calls")
       THEN /\ findings' = findings \o <<Finding(l, "BIND-panic", "a pass did not complete for this case")>>
            /\ cnt' = cnt
       ELSE /\ findings' = findings \o WireFindings \o CallFindings \o DecodeFindings
            /\ cnt' = [cases |-> cnt.cases + 1, searches |-> cnt.searches + Len(E.glue), calls |-> cnt.calls + Len(E.calls),
                         reordered |-> cnt.reordered + (IF AllStrict THEN 0 ELSE 1)]

TvInit == l = 1 /\ findings = <<>> /\ cnt = [cases |-> 0, searches |-> 0, calls |-> 0, reordered |-> 0]
TvSpec == TvInit /\ [][TvNext]_vars
Report == (l = NRec + 1) => PrintT(<<"TV-RESULT", ToJson([events |-> NRec, viol |-> findings, drift |-> <<>>, cnt |-> cnt])>>)
Consumed == TLCGet("stats").diameter - 1 = NRec
=============================================================================
