SPECIFICATION Spec
CONSTANTS
  CapFactor = 1
  Variant = "fixed"
  MaxSteps = 4
  Ids = {1, 2}
  Eval <- SysEval
  QWords <- SysQWords
  QGrams <- SysQGrams
INVARIANTS Isolation LastResult FreshStart PerStore
CHECK_DEADLOCK FALSE
