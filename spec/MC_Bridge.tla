------------------------------ MODULE MC_Bridge ------------------------------
(* L1 for the WASM / JavaScript boundary: the NUL framing is the identity exactly    *)
(* when no title contains NUL (and no title is empty), and the chunk parser recovers *)
(* the spans of any well-formed markup whose text contains no brace pairs.           *)
EXTENDS Bridge
CONSTANTS MaxLen

Alphabet == {0, 97, LB, RB}
Titles == UNION { [1..n -> Alphabet] : n \in 0..MaxLen }

VARIABLES stage, t1, t2
vars == <<stage, t1, t2>>
Init == stage = 0 /\ t1 = <<>> /\ t2 = <<>>
Next == \/ stage = 0 /\ stage' = 1 /\ t1' \in Titles /\ t2' = <<>>
        \/ stage = 1 /\ stage' = 2 /\ t2' \in Titles /\ UNCHANGED t1
Spec == Init /\ [][Next]_vars

NulFree(t) == 0 \notin SeqRange(t)
\* framing two titles and splitting again gives the same two titles iff neither contains NUL
RoundTrip == stage = 2 =>
               ((NulFree(t1) /\ NulFree(t2)) <=> (Len(Unframe(Frame(<<t1, t2>>))) = 3 /\ JsTitles(<<1, 2>>, <<t1, t2>>) = <<t1, t2>>))
\* the wrapper throws on an empty title (e.g. a record with an empty title listed by an empty query)
ThrowsOnEmpty == stage = 2 => ((NulFree(t1) /\ NulFree(t2)) => (JsThrows(<<1, 2>>, <<t1, t2>>) <=> (t1 = <<>> \/ t2 = <<>>)))
\* chunk parsing: for a plain text without brace pairs and any single span, the chunks are the expected ones
BracePairFree(t) == \A i \in 1..(Len(t) - 1) : ~(t[i] = t[i + 1] /\ t[i] \in {LB, RB})
ChunksOk == stage = 2 =>
              \A a \in 0..Len(t1), b \in 0..Len(t1) :
                 (a < b /\ NulFree(t1) /\ BracePairFree(t1) /\ (Len(t1) = 0 \/ (t1[1] # RB /\ t1[Len(t1)] # LB))
                   /\ BracePairFree(SubSeq(t1, 1, a) \o <<97>> \o SubSeq(t1, a + 1, Len(t1)))
                   /\ \A k \in {a, b} : (k = 0 \/ t1[k] \notin {LB, RB}) /\ (k = Len(t1) \/ t1[k + 1] \notin {LB, RB})) =>
                    Chunks(InsertMarkers(t1, <<[a |-> a, b |-> b]>>, <<LB, LB>>, <<RB, RB>>)) = ExpectedChunks(t1, <<[a |-> a, b |-> b]>>)
=============================================================================
