---------------------------- MODULE GEN_TextMatch ----------------------------
(* Case generation (specification -> implementation direction).  TLC enumerates      *)
(* literal tokenised texts of the bounded model - every word over a small alphabet   *)
(* with every character class, every stem the stemmer could return, function-word    *)
(* flags, gap widths - together with the queries the text-level properties talk      *)
(* about (whole title, swapped words, joined and split spellings, single edits,       *)
(* prefixes), and writes them as ND-JSON.  The harness feeds each pair to the real    *)
(* text_match / score / filter / highlight (`tm` operation) and TV_Comp compares      *)
(* every recorded field with TextMatch.tla / Score.tla / Highlight.tla.               *)
EXTENDS Base, SequencesExt, Json, IOUtils
CONSTANTS NSym, MaxWord, MaxStems

ClassOfSym(x) == CASE x = 1 -> "V" [] x = 2 -> "C" [] x = 3 -> "A" [] OTHER -> "N"
SEP == 32
Ch(x) == 96 + x                      \* symbols are written as the letters a, b, c, ...

\* a word is [w, stem, func]
Letters(lo, hi) == UNION { [1..n -> 1..NSym] : n \in lo..hi }
StemChoices(n) == IF MaxStems = "all" THEN 1..n ELSE {1, n}
WordsS(lo, hi) == UNION { { [w |-> w, stem |-> st, func |-> f] : st \in StemChoices(Len(w)), f \in {FALSE} } : w \in Letters(lo, hi) }
            \cup { [w |-> w, stem |-> Len(w), func |-> TRUE] : w \in Letters(lo, Min2(hi, 2)) }

MkText(ws, gaps, isQuery) ==
  LET RECURSIVE Build(_, _, _, _)
      Build(i, chars, words, pos) ==
        IF i > Len(ws) THEN [chars |-> chars, words |-> words]
        ELSE LET g == IF i = 1 THEN 0 ELSE gaps[i - 1]
                 s == pos + g
                 e == s + Len(ws[i].w)
             IN Build(i + 1, chars \o [k \in 1..g |-> SEP] \o [k \in DOMAIN ws[i].w |-> Ch(ws[i].w[k])],
                      Append(words, [offset |-> i - 1, s |-> s, e |-> e, stem |-> ws[i].stem,
                                     fin |-> ~(isQuery /\ i = Len(ws)), func |-> ws[i].func]), e)
      b == Build(1, <<>>, <<>>, 0)
  IN [chars |-> b.chars, source |-> b.chars, words |-> b.words,
      classes |-> [k \in DOMAIN b.chars |-> IF b.chars[k] = SEP THEN "N" ELSE ClassOfSym(b.chars[k] - 96)]]

Plain(w) == [w |-> w, stem |-> Len(w), func |-> FALSE]
Edits(w) ==
  LET n == Len(w) IN
       { [w EXCEPT ![i] = c] : i \in 1..n, c \in 1..NSym }
  \cup { SubSeq(w, 1, i) \o <<c>> \o SubSeq(w, i + 1, n) : i \in 0..n, c \in 1..NSym }
  \cup { Without(w, i) : i \in 1..n } \cup { [w EXCEPT ![i] = w[i + 1], ![i + 1] = w[i]] : i \in 1..(n - 1) }

\* the queries asked of a title (sequence of words, gaps): as sequences of [ws, gaps]
QueriesFor(t, gaps) ==
  LET n == Len(t)
      joinedAll == [w |-> Flatten([i \in 1..n |-> t[i].w]), stem |-> Len(Flatten([i \in 1..n |-> t[i].w])), func |-> FALSE]
  IN   { [ws |-> [i \in 1..n |-> Plain(t[i].w)], gaps |-> gaps] }                                        \* the whole title
  \cup { [ws |-> <<Plain(t[n].w), Plain(t[1].w)>>, gaps |-> <<1>>] }                                     \* last and first word
  \cup { [ws |-> <<joinedAll>>, gaps |-> <<>>] }                                                         \* run together
  \cup { [ws |-> <<[joinedAll EXCEPT !.stem = 1]>>, gaps |-> <<>>] }
  \cup UNION { { [ws |-> <<Plain(SubSeq(t[i].w, 1, k)), Plain(SubSeq(t[i].w, k + 1, Len(t[i].w)))>>, gaps |-> <<g>>]
                 : k \in 1..(Len(t[i].w) - 1), g \in 1..2 } : i \in 1..n }                               \* split spellings
  \cup UNION { { [ws |-> <<Plain(e)>>, gaps |-> <<>>] : e \in Edits(t[i].w) \ {<<>>} } : i \in 1..n }    \* single edits, prefixes
  \cup UNION { { [ws |-> <<Plain(e)>>, gaps |-> <<>>] : e \in Edits(joinedAll.w) \ {<<>>} } : i \in {1} } \* edits of the joined spelling

Titles == { [ws |-> <<a>>, gaps |-> <<>>] : a \in WordsS(1, MaxWord) }
     \cup { [ws |-> <<a, b>>, gaps |-> <<g>>] : a \in WordsS(1, MaxWord), b \in WordsS(1, MaxWord), g \in 1..2 }

Cases == UNION { { [rt |-> MkText(t.ws, t.gaps, FALSE), qt |-> MkText(q.ws, q.gaps, TRUE)] : q \in QueriesFor(t.ws, t.gaps) } : t \in Titles }

ASSUME ndJsonSerialize(IOEnv.GEN_OUT, SetToSeq(Cases))
ASSUME PrintT(<<"GEN-COUNT", Cardinality(Cases)>>)
=============================================================================
