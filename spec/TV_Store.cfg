SPECIFICATION TvSpec
CONSTANTS
  CapFactor = 10
  Variant = "fixed"
  Eval <- TVEval
  QWords <- TVQWords
  QGrams <- TVQGrams
  CI <- TVCI
INVARIANT Report
POSTCONDITION Consumed
CHECK_DEADLOCK FALSE
