------------------------------ MODULE WordMatch ------------------------------
(* matching/word.rs, matching/word_match.rs, tokenization/word_view.rs:             *)
(* matching one record word against one query word.                                 *)
(*                                                                                  *)
(*   length gate (0.26) -> Jaccard gate (0.51) -> distance table -> prefix-pair scan *)
(*   (relative distance at most 0.21)                                               *)
(*                                                                                  *)
(* A text is [chars, classes, words]; a word view is [offset, s, e, stem, fin, func] *)
(* (slice 0-based, end exclusive).  Distances are in half-units k; the typos of a    *)
(* match are kept in tenths (t10 = 5k for an unsplit match) because splitting a      *)
(* joined match distributes them in tenths; ct = ceil(typos).                       *)
(* Thresholds are exact integer forms of the f64 comparisons (agreeing with IEEE     *)
(* evaluation for all lengths up to 200, see DESIGN.md 3.2).                         *)
EXTENDS DamLev, Jaccard

WLen(v)          == v.e - v.s
WChars(t, v)     == SubSeq(t.chars, v.s + 1, v.e)
WClasses(t, v)   == SubSeq(t.classes, v.s + 1, v.e)
Gap(a, b)        == b.s - a.e                       \* Word::dist for words in order

\* WordView::join: from the start of `a` to the end of `b`; stem of b shifted; no part of speech
JoinWords(a, b) == [offset |-> a.offset, s |-> a.s, e |-> b.e, stem |-> (b.s - a.s) + b.stem, fin |-> b.fin, func |-> FALSE]

----------------------------------------------------------------------------
LengthCheck(rlen0, qlen, qfin) ==
  LET rlen == IF qfin THEN rlen0 ELSE Min2(qlen, rlen0) IN
  IF qlen <= 1 \/ rlen <= 1 THEN qlen = rlen
  ELSE LET long == Max2(qlen, rlen)  short == Min2(qlen, rlen) IN 100 * (long - short) < 26 * long

JaccardCheck(r, q, qfin) ==
  LET rs  == IF qfin THEN r ELSE SubSeq(r, 1, Min2(Len(q) + 1, Len(r)))
      sim == Similarity(rs, q)
  IN 100 * (sim.q - sim.p) < 51 * sim.q

\* relative distance above DAMLEV_THRESHOLD
TooFar(k, qs, rs) == 100 * k > 42 * Max2(Max2(qs, rs), 1)

\* the scan over pairs of prefix lengths: <<>> or <<[rslice, qslice, k]>>
\* (the first pair in scan order that attains the minimum distance among admissible pairs)
ScanPairs(D, rlen, rstem, qlen, qstem, qfin) ==
  LET left  == (IF qfin THEN Max2(qstem, rstem) ELSE qstem) - 1
      right == Max2(qlen, rlen) + 1
      RECURSIVE Outer(_, _), Inner(_, _, _)
      Inner(rs, qs, best) ==
        IF qs < left THEN best
        ELSE IF qs > qlen \/ rs > rlen \/ qs < qstem \/ (rs = left /\ qs = left) THEN Inner(rs, qs - 1, best)
        ELSE IF qfin /\ rs < rstem THEN best
        ELSE IF Abs(qs - rs) > 1 THEN Inner(rs, qs - 1, best)
        ELSE LET k == PrefixCell(D, qs, rs) IN
             IF TooFar(k, qs, rs) THEN Inner(rs, qs - 1, best)
             ELSE LET nb == IF best # <<>> /\ best[1].k <= k THEN best ELSE <<[rslice |-> rs, qslice |-> qs, k |-> k]>> IN
                  IF k = 0 THEN nb ELSE Inner(rs, qs - 1, nb)
      Outer(rs, best) == IF rs < left THEN best ELSE Outer(rs - 1, Inner(rs, right - 1, best))
  IN IF right <= left THEN <<>> ELSE Outer(right - 1, <<>>)

\* `qword.stem - 1` etc. are unsigned: stems are at least 1 (C01 obligation, guaranteed by C15)
ScanSafe(rstem, qstem) == NoUnderflow(rstem, 1) /\ NoUnderflow(qstem, 1)

MkMatch(v, sub, t10, fin) ==
  [offset |-> v.offset, s |-> v.s, e |-> v.e, sub |-> sub, t10 |-> t10, ct |-> CeilDiv(t10, 10), func |-> v.func, fin |-> fin]

\* word_match(rword, qword): <<>> or <<[r, q]>>
WordMatch(rt, rv, qt, qv) ==
  LET r == WChars(rt, rv)  q == WChars(qt, qv) IN
  IF Len(q) = 0 \/ Len(r) = 0 THEN <<>>
  ELSE IF ~LengthCheck(Len(r), Len(q), qv.fin) THEN <<>>
  ELSE IF ~JaccardCheck(r, q, qv.fin) THEN <<>>
  ELSE LET D == DLRows(q, WClasses(qt, qv), r, WClasses(rt, rv), Max2(Len(q), Len(r)) + 2)
           m == ScanPairs(D, Len(r), rv.stem, Len(q), qv.stem, qv.fin)
       IN IF m = <<>> THEN <<>>
          ELSE LET fin == qv.fin \/ Len(r) = m[1].rslice IN
               <<[r |-> MkMatch(rv, m[1].rslice, 5 * m[1].k, fin), q |-> MkMatch(qv, m[1].qslice, 5 * m[1].k, fin)]>>

\* WordMatch::split of a match on join(w1, w2): <<>> if the match does not reach w2
SplitMatch(m, w1, w2) ==
  IF w1.s + m.sub <= w2.s THEN <<>>
  ELSE LET l1 == WLen(w1)  l2 == WLen(w2)
           m1 == IF l1 = 0 THEN 0 ELSE IF l2 = 0 THEN m.t10 ELSE CeilDiv(m.t10 * l1, l1 + l2)
           m2 == m.t10 - m1
       IN << [offset |-> w1.offset, s |-> w1.s, e |-> w1.e, sub |-> l1, t10 |-> m1, ct |-> CeilDiv(m1, 10), func |-> w1.func, fin |-> TRUE],
             [offset |-> w2.offset, s |-> w2.s, e |-> w2.e, sub |-> m.sub - (w2.s - w1.s), t10 |-> m2, ct |-> CeilDiv(m2, 10), func |-> w2.func, fin |-> m.fin] >>

\* `match_len - 2 * ceil(typos)` computed in usize (text.rs; score.rs before the repair)
MatchScore(m)     == m.sub - 2 * m.ct
MatchScoreSafe(m) == NoUnderflow(m.sub, 2 * m.ct)
=============================================================================
