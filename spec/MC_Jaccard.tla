----------------------------- MODULE MC_Jaccard -----------------------------
(* L1 for C17 / C19: the buffer machine of the Jaccard pre-filter over every pair of *)
(* sequences in the bound, in sequences of calls that reuse the buffers.             *)
EXTENDS Jaccard
CONSTANTS MaxLen, MaxCalls, NSym

Seqs == UNION { [1..n -> 1..NSym] : n \in 0..MaxLen }

VARIABLES bufs, calls, a, b, p, q, acc, pend
vars == <<bufs, calls, a, b, p, q, acc, pend>>
Init == bufs = [set1 |-> <<>>, set2 |-> <<>>] /\ calls = 0 /\ a = <<>> /\ b = <<>> /\ p = 1 /\ q = 1 /\ acc = {} /\ pend = <<>>
Next == \/ /\ pend = <<>> /\ calls < MaxCalls
           /\ \E x \in Seqs : pend' = <<x>>
           /\ UNCHANGED <<bufs, calls, a, b, p, q, acc>>
        \/ /\ pend # <<>>
           /\ calls' = calls + 1 /\ pend' = <<>>
           /\ \E y \in Seqs :
                LET s == JacStep(bufs, pend[1], y) IN
                bufs' = s.bufs /\ p' = s.p /\ q' = s.q /\ acc' = s.acc /\ a' = pend[1] /\ b' = y
Spec == Init /\ [][Next]_vars

TrueSimilarity == SameFraction(p, q, a, b)
InUnit         == 0 <= p /\ p <= q /\ q > 0
Symmetric      == LET r == Similarity(b, a) IN p * r.q = r.p * q
HistoryFree    == LET r == Similarity(a, b) IN p = r.p /\ q = r.q
SetOnly        == \A x \in Seqs, y \in Seqs :                       \* repetitions and order do not matter
                    (SeqRange(x) = SeqRange(a) /\ SeqRange(y) = SeqRange(b) /\ calls = 1) =>
                       LET r == Similarity(x, y) IN p * r.q = r.p * q
InBoundsAll    == \A x \in acc : InRange(x.ix, x.len)
=============================================================================
