SPECIFICATION Spec
CONSTANTS
  Lang = "de"
  MaxLen = 4
  Alphabet <- AlphaDe
  CI <- MCI
INVARIANTS WellFormedBoth VariantsAgree Idempotent
CHECK_DEADLOCK FALSE
