SPECIFICATION Spec
CONSTANTS
  NSym = 3
  MaxWord = 3
  Mode = "joined"
INVARIANTS Found ArithSafe Markup
CHECK_DEADLOCK FALSE
