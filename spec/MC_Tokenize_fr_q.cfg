SPECIFICATION Spec
CONSTANTS
  Lang = "fr"
  MaxLen = 3
  Alphabet <- AlphaFr
  CI <- MCI
INVARIANTS WellFormedBoth VariantsAgree Idempotent
CHECK_DEADLOCK FALSE
