SPECIFICATION Spec
CONSTANTS
  MaxLen = 6
  Keys = {1, 2, 3}
  MaxLimit = 3
INVARIANTS Refines NonEmpty StableOk Unique Complete
CHECK_DEADLOCK FALSE
