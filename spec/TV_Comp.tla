------------------------------ MODULE TV_Comp ------------------------------
(* Trace validation of component-level runs: the distance (dl), the Jaccard          *)
(* pre-filter (jac), the bounded selection (lsort) and the tokenisers (tok).         *)
(* L2: every recorded value is compared with the specification's own computation     *)
(* (DamLev.tla, Jaccard.tla, LimitSort.tla, Tokenize.tla); L3: the laws of C15, C16, *)
(* C17 and the access bounds of C19 are evaluated on the recorded values.            *)
EXTENDS TVCommon, Score, LimitSort

VARIABLES l, sizes, memoD, memoJ, memoS, memoG, viol, drift, cnt
vars == <<l, sizes, memoD, memoJ, memoS, memoG, viol, drift, cnt>>

PropIds == {"C01","C03","C05","C09","C15","C16","C17","C19","C06","ood","L2"}
E == Rec[l]
Res(f, d, n) == [f |-> f, d |-> d, n |-> n]
Bump(c, names) ==        \* each property is counted at most once per event: cnt[p] = events that exercised p
  LET RECURSIVE B(_, _, _)
      B(cc, ns, seen) ==
        IF ns = <<>> THEN cc
        ELSE LET h == Head(ns) IN
             IF h \in seen THEN B(cc, Tail(ns), seen)
             ELSE B([x \in DOMAIN cc \cup {h} |-> IF x = h THEN (IF h \in DOMAIN cc THEN cc[h] ELSE 0) + 1 ELSE cc[x]], Tail(ns), seen \cup {h})
  IN B(c, names, {})
Put(f, k, v) == [x \in DOMAIN f \cup {k} |-> IF x = k THEN v ELSE f[x]]

InitCapacity == 20

AllAny(c) == [i \in DOMAIN c |-> "A"]

DlChecks ==
  LET n == Len(E.w1)  m == Len(E.w2)
      key == <<E.w1, E.c1, E.w2, E.c2>>
      swp == <<E.w2, E.c2, E.w1, E.c1>>
      anyk == <<E.w1, AllAny(E.c1), E.w2, AllAny(E.c2)>>
      small == n * m <= 700
      D == DLRows(E.w1, E.c1, E.w2, E.c2, IF Has(E, "size") THEN E.size ELSE Max2(n, m) + 2)
      d == E.d_x2
      isAny == E.c1 = AllAny(E.c1) /\ E.c2 = AllAny(E.c2)
  IN IF Has(E, "panic")
       THEN Res(<<Finding(l, "C19", "distance call panicked"), Finding(l, "C01", "distance call panicked")>>, <<>>, <<"C19">>)
     ELSE Res(
         Check(d >= 0, l, "C16", "distance is not a multiple of 0.5")
      \o Check((d = 0) <=> (E.w1 = E.w2), l, "C16", "distance is zero for different words or non-zero for equal words")
      \o (IF small THEN Check(d <= 2 * Lev(E.w1, E.w2), l, "C16", "distance exceeds the plain Levenshtein distance")
                     \o Check(d >= UDL(E.w1, E.w2), l, "C16", "distance is below half the unrestricted Damerau-Levenshtein distance")
          ELSE <<>>)
      \o (IF key \in DOMAIN memoD THEN Check(memoD[key] = d, l, "C16", "same words and classes, different distance than before") ELSE <<>>)
      \o (IF swp \in DOMAIN memoD THEN Check(memoD[swp] = d, l, "C16", "distance is not symmetric") ELSE <<>>)
      \o (IF anyk \in DOMAIN memoD /\ ~isAny THEN Check(d <= memoD[anyk], l, "C16", "class discounts raised the distance") ELSE <<>>)
      \o Flatten([k \in DOMAIN E.cells |->
            LET i == E.cells[k][1]  j == E.cells[k][2]  v == E.cells[k][3]
                pk == <<SubSeq(E.w1, 1, i), SubSeq(E.c1, 1, i), SubSeq(E.w2, 1, j), SubSeq(E.c2, 1, j)>>
            IN IF pk \in DOMAIN memoD THEN Check(memoD[pk] = v, l, "C16", "prefix cell differs from the distance of the prefixes on their own") ELSE <<>>])
      \o AccFindings(E, l),
      \* L2
         Check(d = PrefixCell(D, n, m), l, "L2", "distance differs from DamLev.tla")
      \o Check(\A k \in DOMAIN E.cells : E.cells[k][3] = PrefixCell(D, E.cells[k][1], E.cells[k][2]), l, "L2", "prefix cells differ from DamLev.tla")
      \o Check(E.size = GrownSize(IF E.inst \in DOMAIN sizes THEN sizes[E.inst] ELSE InitCapacity + 2, n, m), l, "L2", "matrix dimension differs from the growth rule"),
         <<"C16", "C19">>)

JacChecks ==
  LET key == <<E.a, E.b>>  swp == <<E.b, E.a>>
      r == Similarity(E.a, E.b) IN
  IF Has(E, "panic") THEN Res(<<Finding(l, "C19", "similarity call panicked"), Finding(l, "C01", "similarity call panicked")>>, <<>>, <<"C19">>)
  ELSE Res(
      Check(E.q > 0 /\ E.p >= 0 /\ E.p <= E.q, l, "C17", "similarity outside [0,1] or not a ratio of set sizes")
   \o Check(E.q > 0 => SameFraction(E.p, E.q, E.a, E.b), l, "C17", "similarity is not |A n B| / |A u B|")
   \o (IF key \in DOMAIN memoJ THEN Check(memoJ[key] = <<E.p, E.q>>, l, "C17", "same sequences, different similarity than before") ELSE <<>>)
   \o (IF swp \in DOMAIN memoJ THEN Check(memoJ[swp] = <<E.p, E.q>>, l, "C17", "similarity is not symmetric") ELSE <<>>)
   \o AccFindings(E, l),
      Check(E.q > 0 => E.p * r.q = r.p * E.q, l, "L2", "similarity differs from Jaccard.tla"),
      <<"C17", "C19">>)

LsChecks ==
  LET items == [i \in DOMAIN E.items |-> [key |-> <<E.items[i][1]>>, tag |-> E.items[i][2]]]
      out   == [i \in DOMAIN E.out |-> [key |-> <<E.out[i][1]>>, tag |-> E.out[i][2]]]
      stable == Has(E, "stable") /\ E.stable
  IN IF Has(E, "panic") THEN Res(<<Finding(l, "C01", "limit sort panicked")>>, <<>>, <<>>)
     ELSE Res(Check(IsTopK(out, items, E.limit), l, "C06", "bounded selection is not a top-`limit` list of its input")
           \o (IF stable THEN Check(out = Take(StableSort(items), E.limit), l, "C06", "stable selection reordered equal keys") ELSE <<>>),
              <<>>, <<"C06">>)

TokChecks ==
  LET isQ == E.kind = "q" IN
  IF Has(E, "panic") THEN Res(<<Finding(l, "C01", "tokeniser panicked"), Finding(l, "C15", "tokeniser panicked")>>, <<>>, <<"C15">>)
  ELSE LET T == E.tok
           mine == Tokenize(E.lang, E.text, isQ)
           proj == [i \in DOMAIN T.words |-> [offset |-> T.words[i].offset, s |-> T.words[i].s, e |-> T.words[i].e,
                                             fin |-> T.words[i].fin, func |-> T.words[i].func]]
       IN Res(
            Check(WellFormed(T, isQ), l, "C15", "tokenised text is not well formed")
         \o Check(StripNUL(T.source) = StripNUL(ComposeSeq(E.lang, E.text)), l, "C15", "original array without padding is not the composed input")
         \o Flatten([i \in DOMAIN T.words |->
              LET k == <<E.lang, SubSeq(T.chars, T.words[i].s + 1, T.words[i].e)>> IN
              IF k \in DOMAIN memoS THEN Check(memoS[k] = T.words[i].stem, l, "C15", "same word, same language, different stem") ELSE <<>>]),
            Check(T.source = mine.source, l, "L2", "source differs from Tokenize.tla")
         \o Check(T.chars = mine.chars, l, "L2", "chars differ from Tokenize.tla")
         \o Check(T.classes = mine.classes, l, "L2", "classes differ from Tokenize.tla")
         \o Check(proj = mine.words, l, "L2", "words differ from Tokenize.tla"),
            <<"C15">>)

\* the real text_match / score / filter / highlight on a pair of texts: literal texts generated by TLC from the
\* bounded model (GEN_TextMatch.tla: rt, qt) or texts tokenised by the crate (rtok, qtok)
SameM(lm, sm) ==
  /\ lm.offset = sm.offset /\ lm.s = sm.s /\ lm.e = sm.e /\ lm.sub = <<0, sm.sub>>
  /\ lm.t10 = sm.t10 /\ lm.ct = sm.ct /\ lm.func = sm.func /\ lm.fin = sm.fin
SameMs(ls, ss) == Len(ls) = Len(ss) /\ \A i \in DOMAIN ls : SameM(ls[i], ss[i])
TmChecks ==
  LET rt == IF Has(E, "rt") THEN E.rt ELSE E.rtok
      qt == IF Has(E, "qt") THEN E.qt ELSE E.qtok
      rating == IF Has(E, "rating") THEN E.rating ELSE 0
  IN IF Has(E, "panic") THEN Res(<<Finding(l, "C01", "matcher / scorer / highlighter panicked")>>, <<>>, <<"C01">>)
     ELSE
     LET ev == EvalRecord(rt, rating, qt, <<SL>>, <<SR>>)
         R  == E.res
         p  == ParseHL(R.hl)
         sentinelFree == SL \notin SeqRange(rt.source) /\ SR \notin SeqRange(rt.source)
     IN Res(
          \* L3: markup of the highlighted title (C09) and span length (C05) on what the code returned
          (IF sentinelFree THEN
             Check(p.ok, l, "C09", "markers do not alternate")
          \o (IF p.ok /\ Len(p.plain) = Len(StripNul(rt.source)) THEN
                Flatten([k \in DOMAIN p.spans |->
                  LET sp == p.spans[k] IN
                  IF sp.b <= sp.a THEN <<Finding(l, "C09", "empty highlighted span")>>
                  ELSE LET ss == SpanInSource(rt.source, sp)
                           ws == { i \in DOMAIN rt.words : rt.words[i].s = ss.s } IN
                       Check(ws # {} /\ \A i \in ws : ss.e <= rt.words[i].e, l, "C09", "span is not a prefix of a title word")
                    \o (IF Len(qt.words) > 0 THEN Check(ss.e - ss.s <= (Last(qt.words).e - qt.words[1].s) + 1, l, "C05",
                                                         "highlighted span longer than the typed stretch plus one") ELSE <<>>)])
               \o (IF R.pass /\ Len(qt.words) > 0 THEN Check(Len(p.spans) >= 1, l, "C09", "passing record for a query with a word has no highlight") ELSE <<>>)
              ELSE <<>>)
           ELSE <<>>)
          \o AccFindings(E, l),
          \* L2
             Check(SameMs(R.rm, ev.tm.rm) /\ SameMs(R.qm, ev.tm.qm), l, "L2", "text match differs from TextMatch.tla")
          \o Check(R.scores.big \/ R.scores.v = ev.scores, l, "L2", "scores differ from Score.tla")
          \o Check(R.pass = ev.pass, l, "L2", "filter verdict differs from Score.tla")
          \o Check(R.hl = ev.title, l, "L2", "highlighted title differs from Highlight.tla")
          \o Check(ev.safe, l, "L2", "an unsigned subtraction of the matcher would underflow (ArithSafe)"),
          <<"C01", "C09", "C05", "C19">>)

Apply(r) ==
  /\ viol'  = viol \o r.f
  /\ drift' = drift \o r.d
  /\ cnt'   = Bump(cnt, r.n)

TvTm == /\ E.op = "tm" /\ ~Has(E, "unsupported") /\ Apply(TmChecks) /\ UNCHANGED <<sizes, memoD, memoJ, memoS, memoG>>

\* the pre-filters of word_match on literal words.  C17 at the call site: the Jaccard gate must be a function of the true
\* set similarity of the slices it compares, monotone in it - whatever its threshold is (a changed threshold is drift,
\* not a violation): no pair may be rejected whose similarity is at least that of a pair that was accepted.
GateSlices == [r |-> IF E.qfin THEN E.r ELSE SubSeq(E.r, 1, Min2(Len(E.q) + 1, Len(E.r))), q |-> E.q]
GateSim == [p |-> RefInter(GateSlices.r, GateSlices.q), q |-> Max2(RefUnion(GateSlices.r, GateSlices.q), 1)]
FracLeq(a, b) == a.p * b.q <= b.p * a.q
GateChecks ==
  IF Has(E, "panic") THEN Res(<<Finding(l, "C01", "word gate panicked")>>, <<>>, <<"C17">>)
  ELSE LET sim == GateSim
           bad == IF E.jaccard_ok THEN memoG.maxFail # <<>> /\ FracLeq(sim, memoG.maxFail[1])
                                  ELSE memoG.minPass # <<>> /\ FracLeq(memoG.minPass[1], sim)
       IN Res(
         Check(~bad, l, "C17", "the Jaccard pre-filter rejects a pair at least as similar as one it accepts")
      \o AccFindings(E, l),
         Check(E.jaccard_ok = JaccardCheck(E.r, E.q, E.qfin), l, "L2", "Jaccard gate differs from WordMatch.tla (threshold 0.51)")
      \o Check(E.length_ok = LengthCheck(Len(E.r), Len(E.q), E.qfin), l, "L2", "length gate differs from WordMatch.tla"),
         <<"C17", "C19">>)
TvGate == /\ E.op = "gate" /\ ~Has(E, "unsupported") /\ Apply(GateChecks)
          /\ memoG' = IF Has(E, "panic") THEN memoG
                       ELSE IF E.jaccard_ok
                         THEN [memoG EXCEPT !.minPass = IF @ = <<>> \/ FracLeq(GateSim, @[1]) THEN <<GateSim>> ELSE @]
                         ELSE [memoG EXCEPT !.maxFail = IF @ = <<>> \/ FracLeq(@[1], GateSim) THEN <<GateSim>> ELSE @]
          /\ UNCHANGED <<sizes, memoD, memoJ, memoS>>

\* the real word_match on literal words with arbitrary stems (GEN_WordMatch.tla) or on words tokenised by the crate
WmChecks ==
  LET rt == IF Has(E, "rt") THEN E.rt ELSE E.rtok
      qt == IF Has(E, "qt") THEN E.qt ELSE E.qtok
      ri == IF Has(E, "ri") THEN E.ri + 1 ELSE 1
      qi == IF Has(E, "qi") THEN E.qi + 1 ELSE 1
  IN IF Has(E, "panic") THEN Res(<<Finding(l, "C01", "word_match panicked")>>, <<>>, <<"C01">>)
     ELSE IF ri > Len(rt.words) \/ qi > Len(qt.words) THEN Res(<<>>, <<>>, <<>>)
     ELSE
     LET m  == WordMatch(rt, rt.words[ri], qt, qt.words[qi])
         rw == WChars(rt, rt.words[ri])
         qw == WChars(qt, qt.words[qi])
     IN Res(
          \* C03 at word level: an unfinished query word that is a prefix of the record word matches it, whatever the stems
          (IF ~qt.words[qi].fin /\ IsPrefixOf(qw, rw) /\ Len(qw) >= 1
             THEN Check(E.m # <<>>, l, "C03", "word_match rejects a typed prefix of the record word") ELSE <<>>)
          \* C16 at the call site: the typos reported for the matched prefix pair are the distance of those two prefixes
          \* computed on their own (fresh instance; t10 is typos x 10, fresh_x2 is distance x 2)
          \o (IF E.m # <<>> /\ Has(E, "fresh_x2") /\ E.fresh_x2 >= 0 /\ E.m[1].r.t10 >= 0
                THEN Check(E.m[1].r.t10 = 5 * E.fresh_x2 /\ E.m[1].q.t10 = 5 * E.fresh_x2, l, "C16",
                           "typos reported by word_match differ from the distance of the matched prefixes on their own")
                ELSE <<>>)
          \o AccFindings(E, l),
          Check((E.m = <<>>) <=> (m = <<>>), l, "L2", "word_match verdict differs from WordMatch.tla")
          \o (IF E.m # <<>> /\ m # <<>> THEN Check(SameM(E.m[1].r, m[1].r) /\ SameM(E.m[1].q, m[1].q), l, "L2", "word match differs from WordMatch.tla") ELSE <<>>),
          <<"C03", "C19", "C01", "C16">>)
TvWm == /\ E.op = "wm" /\ ~Has(E, "unsupported") /\ Apply(WmChecks) /\ UNCHANGED <<sizes, memoD, memoJ, memoS, memoG>>

TvDl  == /\ E.op = "dl" /\ ~Has(E, "unsupported")
         /\ Apply(DlChecks)
         /\ sizes' = IF Has(E, "size") THEN Put(sizes, E.inst, E.size) ELSE [x \in DOMAIN sizes \ {E.inst} |-> sizes[x]]
         /\ memoD' = IF Has(E, "d_x2") THEN Put(memoD, <<E.w1, E.c1, E.w2, E.c2>>, E.d_x2) ELSE memoD
         /\ UNCHANGED <<memoJ, memoS, memoG>>
TvJac == /\ E.op = "jac" /\ ~Has(E, "unsupported")
         /\ Apply(JacChecks)
         /\ memoJ' = IF Has(E, "p") THEN Put(memoJ, <<E.a, E.b>>, <<E.p, E.q>>) ELSE memoJ
         /\ UNCHANGED <<sizes, memoD, memoS, memoG>>
TvLs  == /\ E.op = "lsort" /\ ~Has(E, "unsupported") /\ Apply(LsChecks) /\ UNCHANGED <<sizes, memoD, memoJ, memoS, memoG>>
TvTok == /\ E.op = "tok"
         /\ Apply(TokChecks)
         /\ memoS' = IF Has(E, "tok")
                       THEN LET W == E.tok.words
                                ks == { <<E.lang, SubSeq(E.tok.chars, W[i].s + 1, W[i].e)>> : i \in DOMAIN W } IN
                            [k \in DOMAIN memoS \cup ks |->
                               IF k \in DOMAIN memoS THEN memoS[k]
                               ELSE W[CHOOSE i \in DOMAIN W : k = <<E.lang, SubSeq(E.tok.chars, W[i].s + 1, W[i].e)>>].stem]
                       ELSE memoS
         /\ UNCHANGED <<sizes, memoD, memoJ, memoG>>
TvNew == /\ E.op \in {"dlnew", "jacnew"}
         /\ sizes' = IF E.op = "dlnew" THEN Put(sizes, E.inst, InitCapacity + 2) ELSE sizes
         /\ UNCHANGED <<memoD, memoJ, memoS, memoG, viol, drift, cnt>>
TvCase == /\ E.op = "case"
          /\ sizes' = <<>>                \* component instances are dropped at a case boundary; memos persist
          /\ UNCHANGED <<memoD, memoJ, memoS, memoG, viol, drift, cnt>>
TvOther == /\ (E.op \in {"header", "chartable", "endcase"} \/ Has(E, "unsupported"))
           /\ UNCHANGED <<sizes, memoD, memoJ, memoS, memoG, viol, drift, cnt>>

TvNext == l <= NRec /\ l' = l + 1 /\ (TvDl \/ TvJac \/ TvLs \/ TvTok \/ TvTm \/ TvWm \/ TvGate \/ TvNew \/ TvCase \/ TvOther)
TvInit == l = 1 /\ memoG = [minPass |-> <<>>, maxFail |-> <<>>] /\ sizes = <<>> /\ memoD = <<>> /\ memoJ = <<>> /\ memoS = <<>> /\ viol = <<>> /\ drift = <<>>
          /\ cnt = [p \in PropIds |-> 0]
TvSpec == TvInit /\ [][TvNext]_vars

Report == (l = NRec + 1) =>
            PrintT(<<"TV-RESULT", ToJson([events |-> NRec, viol |-> viol, drift |-> drift, cnt |-> cnt])>>)
Consumed == TLCGet("stats").diameter - 1 = NRec
=============================================================================
