------------------------------ MODULE GEN_Store ------------------------------
(* Case generation for the Store machine (specification -> implementation):         *)
(* every history up to MaxLen calls over the operation alphabet of MC_Store -        *)
(* add (three titles, two ratings), clear, set limit {0,1,2}, set markers, search    *)
(* (empty query, two non-empty ones) - written as ND-JSON; the harness replays each   *)
(* on a real Store (every search also on a freshly built store) and TV_Store          *)
(* validates the recording against StoreOps.tla and the C10 / C12 / C06 predicates.   *)
EXTENDS Base, SequencesExt, Json, IOUtils
CONSTANTS MaxLen

\* the model's titles <<1>>, <<2>>, <<1,2>> are written as words of real letters
Ops == { [op |-> "add", t |-> t, rating |-> r] : t \in {1, 2, 3}, r \in {1, 2} }
  \cup { [op |-> "clear"] }
  \cup { [op |-> "limit", n |-> n] : n \in {0, 1, 2} }
  \cup { [op |-> "markers"] }
  \cup { [op |-> "search", q |-> q] : q \in {0, 1, 2} }

Histories == UNION { [1..n -> Ops] : n \in 1..MaxLen }
\* only histories that end in a search are interesting; the others are prefixes of those
Cases == { h \in Histories : h[Len(h)].op = "search" }

ASSUME ndJsonSerialize(IOEnv.GEN_OUT, SetToSeq({ [ops |-> h] : h \in Cases }))
ASSUME PrintT(<<"GEN-COUNT", Cardinality(Cases)>>)
=============================================================================
