SPECIFICATION Spec
CONSTANTS
  NSym = 4
  MinLen = 1
  MaxLen = 7
  Mode = "prefix"
  Stems = "all"
INVARIANTS Found SharesGram ScoreSafe Monotone
CHECK_DEADLOCK FALSE
