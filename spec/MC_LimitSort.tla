---------------------------- MODULE MC_LimitSort ----------------------------
(* L1: the chunked selection refines the reference top-k for every input sequence  *)
(* in the bound and every outcome of the unstable sort.                            *)
(* The case is built in two steps so that TLC's workers share the evaluation.      *)
EXTENDS LimitSort
CONSTANTS MaxLen, Keys, MaxLimit

\* an item is (key, tag) where tag = input position, so that equal keys stay distinguishable
Tagged(f) == [i \in DOMAIN f |-> [key |-> <<f[i]>>, tag |-> i]]

VARIABLES stage, raw, limit
vars == <<stage, raw, limit>>
Init == stage = 0 /\ raw = <<>> /\ limit = 0
Next == \/ /\ stage = 0
           /\ limit' \in 0..MaxLimit
           /\ \E n \in 0..Min2(3, MaxLen) : raw' \in [1..n -> Keys]
           /\ stage' = 1
        \/ /\ stage = 1
           /\ \E n \in 0..(MaxLen - 3) : \E more \in [1..n -> Keys] :
                 /\ (Len(raw) < 3 => n = 0)
                 /\ raw' = raw \o more
           /\ stage' = 2
           /\ UNCHANGED limit
Spec == Init /\ [][Next]_vars

items == Tagged(raw)
Refines   == stage = 2 => \A o \in Outcomes(items, limit) : IsTopK(o, items, limit)
NonEmpty  == stage = 2 => Outcomes(items, limit) # {}
\* completeness: every sorted arrangement cut to the limit can be produced by the unstable sort
Complete  == stage = 2 => \A o \in SortedPerms(items) : Take(o, limit) \in Outcomes(items, limit)
StableOk  == stage = 2 => \A o \in StableOutcomes(items, limit) :
                /\ IsTopK(o, items, limit)
                /\ o = Take(StableSort(items), limit)
Unique    == stage = 2 => (DistinctKeys(items) => Cardinality(Outcomes(items, limit)) = 1)
=============================================================================
