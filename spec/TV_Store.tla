------------------------------ MODULE TV_Store ------------------------------
(* Trace validation of store-level runs.  Each recorded event is one step: the       *)
(* specification's own store state (StoreOps.tla, variant "fixed") is advanced by   *)
(* the action the event names, the recorded projection of the real store is compared *)
(* with it (L2; differences are "drift"), and every property predicate of Props.tla *)
(* is evaluated on the event (L3; failures are findings).  Nothing stops at the     *)
(* first problem; the result is printed when the whole trace has been consumed.     *)
EXTENDS PropsCase, Registry, Score

VARIABLES l,        \* next trace line
          st,       \* sid -> [lang, s, dead]: the specification's state of every live store
          mem,      \* tag -> hits, for relations between searches of one case
          cs,       \* the line of the current case header
          viol,     \* findings (property violations and tool errors)
          drift,    \* conformance differences (L2)
          cnt,      \* property -> number of non-trivial evaluations
          reg       \* the specification's registry (Registry.tla) for the top-level API events
vars == <<l, st, mem, cs, viol, drift, cnt, reg>>

PropIds == {"C01","C02","C03","C04","C05","C06","C07","C08","C09","C10","C11","C12","C13","C14","C15","C16","C17","C18","C19","C20","ood","L2"}

\* the trace specs do not evaluate the matcher; the operator parameters of StoreOps are not used
TVEval(rec, q, a, b) == [pass |-> FALSE, key |-> <<>>, title |-> <<>>]
TVQWords(q) == 0
TVQGrams(q) == {}

E == Rec[l]
Bump(c, names) ==        \* each property is counted at most once per event: cnt[p] = events that exercised p
  LET RECURSIVE B(_, _, _)
      B(cc, ns, seen) ==
        IF ns = <<>> THEN cc
        ELSE LET h == Head(ns) IN
             IF h \in seen THEN B(cc, Tail(ns), seen)
             ELSE B([x \in DOMAIN cc \cup {h} |-> IF x = h THEN (IF h \in DOMAIN cc THEN cc[h] ELSE 0) + 1 ELSE cc[x]], Tail(ns), seen \cup {h})
  IN B(c, names, {})

Live(sid) == sid \in DOMAIN st /\ ~st[sid].dead
SetStore(sid, S) == [x \in DOMAIN st \cup {sid} |-> IF x = sid THEN S ELSE st[x]]
WithS(sid, s) == SetStore(sid, [st[sid] EXCEPT !.s = s])
\* id -> position of the record (kept next to the store state so that predicates need not search the list)
WithAdd(sid, s, id) == SetStore(sid, [st[sid] EXCEPT !.s = s, !.ix = [x \in DOMAIN st[sid].ix \cup {id} |-> IF x = id THEN Len(s.records) ELSE st[sid].ix[x]]])
WithClear(sid, s) == SetStore(sid, [st[sid] EXCEPT !.s = s, !.ix = <<>>])

\* L2: the recorded projection of the real store equals the specification's state
ProjDrift(s, line) ==
  IF ~Has(E, "proj") THEN <<>>
  ELSE LET P == E.proj IN
       Check(P.n = Len(s.records), line, "L2", "record count differs")
    \o Check(P.next_ix = s.nextIx, line, "L2", "next_ix differs")
    \o Check(P.limit = s.limit, line, "L2", "limit differs")
    \o Check(P.l = s.dividers.l /\ P.r = s.dividers.r, line, "L2", "markers differ")
    \o (IF Has(P, "index_len") THEN Check(P.index_len = s.index.len, line, "L2", "index length differs") ELSE <<>>)
    \o Check((P.cache = <<>>) <=> (s.topIxs = <<>>), line, "L2", "cache presence differs")
    \o (IF P.cache # <<>> /\ s.topIxs # <<>>
          THEN Check(P.cache[1] = Get(s.topIxs).ixs /\ P.cache_limit[1] = Get(s.topIxs).limit, line, "L2", "cache content differs") ELSE <<>>)

Step(res, newst, newdrift) ==
  /\ viol'  = viol \o [i \in DOMAIN res.f |-> [res.f[i] EXCEPT !.line = l] @@ [case |-> cs]]
  /\ cnt'   = Bump(cnt, res.n)
  /\ st'    = newst
  /\ drift' = drift \o newdrift

Skip == Step(NoRes, st, <<>>) /\ UNCHANGED <<mem, cs, reg>>

TvHeader == E.op \in {"header", "chartable", "endcase"} /\ Skip
TvCase   == E.op = "case" /\ cs' = l /\ st' = <<>> /\ mem' = <<>> /\ reg' = NoRegistry /\ UNCHANGED <<viol, drift, cnt>>
TvNew    == E.op = "new" /\ Step(NoRes, SetStore(E.sid, [lang |-> E.lang, s |-> NewStore, dead |-> FALSE, ix |-> <<>>]), <<>>) /\ UNCHANGED <<mem, cs, reg>>
TvDrop   == E.op = "drop" /\ Step(NoRes, [x \in DOMAIN st \ {E.sid} |-> st[x]], <<>>) /\ UNCHANGED <<mem, cs, reg>>

Dead(sid) == SetStore(sid, [st[sid] EXCEPT !.dead = TRUE])

\* an operation on a store that is gone or was left inconsistent by an earlier panic is not judged
TvSkipped == E.op \in {"add", "clear", "limit", "markers", "search", "prepare"} /\ (~Live(E.sid) \/ Has(E, "skipped")) /\ Skip

TvAdd ==
  /\ E.op = "add" /\ Live(E.sid) /\ ~Has(E, "skipped")
  /\ IF Has(E, "panic")
       THEN Step(C01(E, l), Dead(E.sid), <<>>)
       ELSE LET s2 == S_Add(st[E.sid].s, E.id, E.title, E.rating, E.tok) IN
            Step(Join2(C01(E, l), Chk(WellFormed(E.tok, FALSE), l, "C15", "record tokenisation is not well formed")),
                 WithAdd(E.sid, s2, E.id),
                 ProjDrift(s2, l) \o Check(E.ix = st[E.sid].s.nextIx, l, "L2", "record position differs"))
  /\ UNCHANGED <<mem, cs, reg>>

TvClear ==
  /\ E.op = "clear" /\ Live(E.sid) /\ ~Has(E, "skipped")
  /\ IF Has(E, "panic") THEN Step(C01(E, l), Dead(E.sid), <<>>)
     ELSE LET s2 == S_Clear(st[E.sid].s) IN Step(C01(E, l), WithClear(E.sid, s2), ProjDrift(s2, l))
  /\ UNCHANGED <<mem, cs, reg>>

TvLimit ==
  /\ E.op = "limit" /\ Live(E.sid) /\ ~Has(E, "skipped")
  /\ LET s2 == S_SetLimit(st[E.sid].s, E.limit) IN Step(NoRes, WithS(E.sid, s2), ProjDrift(s2, l))
  /\ UNCHANGED <<mem, cs, reg>>

TvMarkers ==
  /\ E.op = "markers" /\ Live(E.sid) /\ ~Has(E, "skipped")
  /\ LET s2 == S_SetMarkers(st[E.sid].s, E.l, E.r) IN Step(NoRes, WithS(E.sid, s2), ProjDrift(s2, l))
  /\ UNCHANGED <<mem, cs, reg>>

\* ---- L2 for the whole pipeline: the recorded per-record matcher output, scores, filter verdict and the
\* recorded hit list against WordMatch / TextMatch / Score / Highlight / LimitSort (sampled: events with `stage`)
SameMatch(lm, sm) ==      \* logged match, specification's match
  /\ lm.offset = sm.offset /\ lm.s = sm.s /\ lm.e = sm.e /\ lm.sub = <<0, sm.sub>>
  /\ lm.t10 = sm.t10 /\ lm.ct = sm.ct /\ lm.func = sm.func /\ lm.fin = sm.fin
SameMatches(ls, ss) == Len(ls) = Len(ss) /\ \A i \in DOMAIN ls : SameMatch(ls[i], ss[i])

StageDrift(S) ==
  IF ~(Has(E, "stage") /\ Has(E, "qtok") /\ Has(E, "hits")) THEN <<>>
  \* the specification's pipeline is evaluated on the recorded tokenisations; one that is not well formed (C15 reports it)
  \* cannot be fed to it - the comparison is noted as drift and skipped instead of failing inside an operator
  ELSE IF ~(WellFormed(E.qtok, TRUE) /\ \A i \in DOMAIN S.s.records : WellFormed(S.s.records[i].tok, FALSE))
    THEN Check(FALSE, l, "L2", "a recorded tokenisation is not well formed: pipeline conformance not evaluated")
  ELSE
  LET s == S.s
      ev(i) == EvalRecord(s.records[i].tok, s.records[i].rating, E.qtok, s.dividers.l, s.dividers.r)
      evs == [i \in DOMAIN s.records |-> ev(i)]
      okLen == Len(E.stage) = Len(s.records)
  IN Check(okLen, l, "L2", "stage output does not cover the records")
  \o (IF okLen THEN
        Flatten([i \in DOMAIN E.stage |->
            Check(SameMatches(E.stage[i].rm, evs[i].tm.rm) /\ SameMatches(E.stage[i].qm, evs[i].tm.qm), l, "L2", "text match differs from TextMatch.tla")
         \o Check(E.stage[i].scores.big \/ E.stage[i].scores.v = evs[i].scores, l, "L2", "scores differ from Score.tla")
         \o Check(E.stage[i].pass = evs[i].pass, l, "L2", "filter verdict differs from Score.tla")
         \o Check(evs[i].safe, l, "L2", "an unsigned subtraction of the matcher would underflow (ArithSafe)")])
        \* sort::compare_hits on every pair of scored records is the lexicographic order of the recorded score vectors
        \o (IF Has(E, "cmp") THEN
              Check(\A k \in DOMAIN E.cmp :
                       LET a == E.stage[E.cmp[k][1] + 1].scores  b == E.stage[E.cmp[k][2] + 1].scores IN
                       a.big \/ b.big \/ E.cmp[k][3] = LexCmp(KeyOf(a.v), KeyOf(b.v)),
                    l, "L2", "compare_hits is not the lexicographic order of the score vectors")
             ELSE <<>>)
        \o (IF Len(s.records) <= CapFactor * s.limit /\ UniqueIds(s)
             THEN LET \* an empty query only considers the positions of the top-rated list (checked separately)
                      \* and a query with words only the records the index offers (those sharing a gram)
                      cand(i) == IF QHasWords(E) THEN GramSet(s.records[i].tok) \cap GramSet(E.qtok) # {}
                                 ELSE ~Has(E, "proj") \/ E.proj.cache = <<>>
                                      \/ \E k \in DOMAIN E.proj.cache[1] : E.proj.cache[1][k] = s.records[i].ix
                      passing == SelectSeq([i \in DOMAIN s.records |-> [key |-> evs[i].key, id |-> s.records[i].id, title |-> evs[i].title,
                                                                        pass |-> evs[i].pass /\ cand(i)]],
                                           LAMBDA x : x.pass)
                      byId(id) == CHOOSE x \in SeqRange(passing) : x.id = id
                      known == \A k \in DOMAIN E.hits : \E x \in SeqRange(passing) : x.id = E.hits[k].id
                  IN Check(known /\ IsTopK([k \in DOMAIN E.hits |-> byId(E.hits[k].id)], passing, s.limit), l, "L2",
                           "hit list is not a top-`limit` selection of the passing records under Score.tla's order")
                  \o (IF known THEN Check(\A k \in DOMAIN E.hits : E.hits[k].title = byId(E.hits[k].id).title, l, "L2",
                                            "highlighted title differs from Highlight.tla") ELSE <<>>)
             ELSE <<>>)
      ELSE <<>>)

\* the cache after a search, as the specification sees it: an empty query (re)fills it with the list
\* the code reports, provided that list is one the specification allows (otherwise drift)
CacheAfter(s, P) ==
  IF Has(E, "qtok") /\ ~QHasWords(E) /\ Has(E, "proj") /\ E.proj.cache # <<>>
    THEN IF CacheUsable(s) THEN s.topIxs ELSE Some([limit |-> s.limit, ixs |-> E.proj.cache[1]])
    ELSE s.topIxs
CacheAllowed(s) ==
  \/ ~(Has(E, "qtok") /\ ~QHasWords(E) /\ Has(E, "proj") /\ E.proj.cache # <<>>)
  \/ CacheUsable(s)
  \/ LET items == RatingItems(s.records)
         ixs   == E.proj.cache[1]
     IN /\ \A i \in DOMAIN ixs : InRange(ixs[i], Len(items))
        /\ IsTopK([i \in DOMAIN ixs |-> items[ixs[i] + 1]], items, s.limit)

\* per-hit predicates are evaluated on every hit of a list of up to 80 hits, and on the first 60 and last 20 of longer ones
HitIdx(hits) == IF Len(hits) <= 80 THEN [i \in DOMAIN hits |-> i]
                ELSE [i \in 1..80 |-> IF i <= 60 THEN i ELSE Len(hits) - 80 + i]
PerHit(hits, F(_)) == JoinAll([k \in DOMAIN HitIdx(hits) |-> F(hits[HitIdx(hits)[k]])])

SearchProps(S) ==
  IF ~Has(E, "hits") THEN JoinAll(<<C01(E, l), IF Has(E, "acc") THEN Res(AccFindings(E, l), <<"C19">>) ELSE NoRes,
                                    C10(E, S, l)>>)      \* a search that does not return is not what a fresh store returns
  ELSE JoinAll(<<
         C01(E, l),
         PerHit(E.hits, LAMBDA h : C02Hit(h, S, l)),
         C02Alt(E, S, l), C09Alt(E, S, l),
         PerHit(E.hits, LAMBDA h : C09Hit(h, E, S, l)),
         PerHit(E.hits, LAMBDA h : C05Hit(h, E, S, l)),
         C06Basic(E, S, l), C06Rel(E, S, l), C07Rel(E, S, l),
         C10(E, S, l), C12(E, S, l),
         IF Has(E, "acc") THEN Res(AccFindings(E, l), <<"C19">>) ELSE NoRes,
         IF Has(E, "qtok") THEN Chk(WellFormed(E.qtok, TRUE), l, "C15", "query tokenisation is not well formed") ELSE NoRes,
         IF Has(E, "expect") /\ Has(E, "qtok") THEN
           CASE E.expect.prop = "C03" -> C03(E, S, l)
             [] E.expect.prop = "C04" -> C04(E, S, l)
             [] E.expect.prop = "C05" -> C05Prefix(E, S, l)
             [] E.expect.prop = "C08" -> C08(E, S, l)
             [] E.expect.prop = "C11" -> C11(E, S, mem, st, l)
             [] E.expect.prop = "C13" -> C13(E, S, l)
             [] E.expect.prop = "C14" -> C14(E, S, l)
             [] OTHER -> NoRes
         ELSE NoRes >>)

TvSearch ==
  /\ E.op = "search" /\ Live(E.sid) /\ ~Has(E, "skipped")
  /\ LET S == st[E.sid] IN
     IF Has(E, "panic") THEN Step(SearchProps(S), Dead(E.sid), <<>>)
     ELSE LET s2 == [S.s EXCEPT !.topIxs = CacheAfter(S.s, E)] IN
          Step(SearchProps(S), WithS(E.sid, s2),
               Check(CacheAllowed(S.s), l, "L2", "cached top-rated list is not a top-`limit` list of the records")
               \o ProjDrift(s2, l) \o StageDrift(S))
  /\ mem' = IF Has(E, "tag") /\ Has(E, "hits") THEN [x \in DOMAIN mem \cup {E.tag} |-> IF x = E.tag THEN [hits |-> E.hits, q |-> E.q, sid |-> E.sid,
                                                  fresh |-> IF Has(E, "fresh_hits") THEN <<E.fresh_hits>> ELSE <<>>,
                                                  rel |-> IF Has(E, "singles") /\ Has(E, "unlimited")
                                                            THEN <<[singles |-> E.singles, unlimited |-> E.unlimited]>> ELSE <<>>] ELSE mem[x]] ELSE mem
  /\ UNCHANGED <<cs, reg>>

\* C18: the candidate list of the trigram index, against gram sets recomputed from the public tokenisation
PrepareProps(S) ==
  IF Has(E, "panic") THEN JoinAll(<<C01(E, l), Chk(FALSE, l, "C18", "index preparation panicked"),
                                     IF Has(E, "acc") THEN Res(AccFindings(E, l), <<"C19">>) ELSE NoRes>>)
  ELSE IF Len(E.qtok.words) = 0 THEN NoRes
  ELSE
  LET s == S.s  n == Len(s.records)  ixs == E.ixs
      qg == GramSet(E.qtok)
      shared(i) == Cardinality(GramSet(s.records[i + 1].tok) \cap qg)       \* i: 0-based position
      sharing == { i \in 0..(n - 1) : shared(i) > 0 }
      cap == 10 * E.size
      valid == \A k \in DOMAIN ixs : InRange(ixs[k], n)
  IN JoinAll(<<
       Chk(NoDup(ixs), l, "C18", "candidate list contains a position twice"),
       Chk(valid, l, "C18", "candidate position without a record"),
       IF valid THEN JoinAll(<<
         Chk(\A k \in DOMAIN ixs : ixs[k] \in sharing, l, "C18", "candidate shares no gram with the query"),
         IF Cardinality(sharing) <= cap
           THEN Chk(SeqRange(ixs) = sharing, l, "C18", "a record sharing a gram is missing from the candidates")
           ELSE JoinAll(<<
                  Chk(Len(ixs) = cap, l, "C18", "capped candidate list does not have 10 x size entries"),
                  Chk(\A k \in 1..(Len(ixs) - 1) : shared(ixs[k]) >= shared(ixs[k + 1]), l, "C18", "candidates are not ordered by shared grams"),
                  Chk(\A o \in sharing \ SeqRange(ixs) : \A k \in DOMAIN ixs : shared(o) <= shared(ixs[k]), l, "C18",
                      "an omitted record shares more grams than a listed one") >>) >>)
       ELSE NoRes,
       IF Has(E, "acc") THEN Res(AccFindings(E, l), <<"C19">>) ELSE NoRes >>)
\* L2: the list is an outcome of the specification's index machine
PrepareDrift(S) ==
  IF Has(E, "panic") \/ Len(E.qtok.words) = 0 THEN <<>>
  ELSE LET cands == Candidates(S.s.index, GramSet(E.qtok))
           byIx(i) == CHOOSE c \in SeqRange(cands) : c.ix = i
           known == \A k \in DOMAIN E.ixs : \E c \in SeqRange(cands) : c.ix = E.ixs[k]
       IN Check(known /\ IsTopK([k \in DOMAIN E.ixs |-> byIx(E.ixs[k])], cands, E.size * CapFactor), l, "L2",
                "candidate list is not an outcome of Trigram.tla's index machine")

TvPrepare ==
  /\ E.op = "prepare" /\ Live(E.sid) /\ ~Has(E, "skipped")
  /\ LET S == st[E.sid] IN
     IF Has(E, "panic") THEN Step(PrepareProps(S), Dead(E.sid), <<>>)
     ELSE Step(PrepareProps(S), st, PrepareDrift(S) \o ProjDrift(S.s, l))
  /\ UNCHANGED <<mem, cs, reg>>

\* ---- top-level API (lib.rs): C20
BufOf(id)  == E.bufs[CHOOSE k \in DOMAIN E.bufs : E.bufs[k].id = id].hits
BufIds     == { E.bufs[k].id : k \in DOMAIN E.bufs }
\* the stand-alone store driven in lock-step for registry id `id` is store 1000 + id of the same case
Twin(id)   == 1000 + id
TwinMatches(id, r) ==
  /\ Twin(id) \in DOMAIN st /\ ~st[Twin(id)].dead
  /\ st[Twin(id)].lang = r.lang
  /\ PlainRecords(st[Twin(id)].s) = PlainRecords(r.s)
  /\ st[Twin(id)].s.limit = r.s.limit /\ st[Twin(id)].s.dividers = r.s.dividers

RegProps(reg2, isSearch) ==
  JoinAll(<<
    Chk(~Has(E, "panic"), l, "C01", "top-level call panicked"),
    Chk(\A k \in DOMAIN E.bufs : ~Has(E.bufs[k], "panic"), l, "C20", "a live id has no result buffer"),
    Chk(BufIds = DOMAIN reg2, l, "C20", "live ids differ from the ids created and not destroyed"),
    IF BufIds = DOMAIN reg2 THEN
      JoinAll(<<
        \* every buffer except the one of a run_search is what the specification's registry holds (frame)
        Chk(\A j \in DOMAIN reg2 : (j # E.id \/ ~isSearch) => BufOf(j) = reg2[j].buf, l, "C20",
            "a result buffer changed without a search on its id (or a re-created id did not start empty)"),
        IF isSearch THEN
          LET tag == "sa" \o ToString(E.id) IN
          JoinAll(<<
            ChkIf(tag \in DOMAIN mem /\ mem[tag].q = E.q /\ mem[tag].sid = Twin(E.id) /\ TwinMatches(E.id, reg2[E.id]),
                  BufOf(E.id) = mem[tag].hits, l, "C20", "result buffer differs from what a stand-alone store returns"),
            \* ... and from what a stand-alone store built from scratch with the same records, limit and markers returns
            \* (the lock-step twin has the id's history; the statement speaks of the records, the limit and the markers)
            ChkIf(tag \in DOMAIN mem /\ mem[tag].q = E.q /\ mem[tag].sid = Twin(E.id) /\ TwinMatches(E.id, reg2[E.id])
                  /\ mem[tag].fresh # <<>>,
                  BufOf(E.id) = mem[tag].fresh[1], l, "C20", "result buffer differs from what a freshly built stand-alone store returns"),
            \* what the top-level API hands out is judged like any other search result (the stand-alone twin supplies the
            \* specification's view of the records: tokenisation, limit, markers)
            IF Has(E, "qtok") /\ TwinMatches(E.id, reg2[E.id]) THEN
              LET S  == st[Twin(E.id)]
                  EE == [op |-> "search", sid |-> Twin(E.id), q |-> E.q, qtok |-> E.qtok, hits |-> BufOf(E.id),
                         expect |-> IF Has(E, "expect") THEN E.expect ELSE [prop |-> "none"]]
              IN JoinAll(<<
                   \* a case of a reachability property asked through the top-level API
                   CASE EE.expect.prop = "C03" -> C03(EE, S, l)
                     [] EE.expect.prop = "C04" -> C04(EE, S, l)
                     [] EE.expect.prop = "C05" -> C05Prefix(EE, S, l)
                     [] EE.expect.prop = "C08" -> C08(EE, S, l)
                     [] EE.expect.prop = "C13" -> C13(EE, S, l)
                     [] EE.expect.prop = "C14" -> C14(EE, S, l)
                     [] OTHER -> NoRes,
                   JoinAll([i \in DOMAIN EE.hits |-> C02Hit(EE.hits[i], S, l)]),
                   JoinAll([i \in DOMAIN EE.hits |-> C09Hit(EE.hits[i], EE, S, l)]),
                   JoinAll([i \in DOMAIN EE.hits |-> C05Hit(EE.hits[i], EE, S, l)]),
                   C06Basic(EE, S, l), C12(EE, S, l),
                   \* the verdicts of the records alone and the unlimited list, obtained for the stand-alone twin, judge the
                   \* result buffer as they judge a Store's own answer
                   IF tag \in DOMAIN mem /\ mem[tag].q = E.q /\ mem[tag].sid = Twin(E.id) /\ mem[tag].rel # <<>>
                     THEN C06Rel([EE EXCEPT !.op = "search"] @@ [singles |-> mem[tag].rel[1].singles, unlimited |-> mem[tag].rel[1].unlimited], S, l)
                     ELSE NoRes,
                   ChkIf(tag \in DOMAIN mem /\ mem[tag].q = E.q /\ mem[tag].sid = Twin(E.id),
                         BufOf(E.id) = mem[tag].hits, l, "C10", "top-level search differs from the same search on a stand-alone store") >>)
            ELSE NoRes >>)
        ELSE NoRes >>)
    ELSE NoRes >>)

TvReg ==
  /\ E.op \in {"r_create", "r_destroy", "r_add", "r_limit", "r_markers", "r_search", "r_clear"}
  /\ LET valid == IF E.op = "r_create" THEN ~Known(reg, E.id) ELSE Known(reg, E.id) IN
     IF ~valid \/ Has(E, "panic")
       THEN /\ Step(IF valid THEN Chk(FALSE, l, "C01", "top-level call panicked") ELSE Res(<<>>, <<"ood">>), st, <<>>)
            /\ reg' = reg
       ELSE LET reg2 ==
                  CASE E.op = "r_create"  -> R_Create(reg, E.id, E.lang)
                    [] E.op = "r_destroy" -> R_Destroy(reg, E.id)
                    [] E.op = "r_add"     -> R_Add(reg, E.id, E.rid, E.title, E.rating, [chars |-> <<>>, words |-> <<>>])
                    [] E.op = "r_limit"   -> R_SetLimit(reg, E.id, E.limit)
                    [] E.op = "r_markers" -> R_Markers(reg, E.id, E.l, E.r)
                    [] E.op = "r_clear"   -> R_Clear(reg, E.id)
                    [] E.op = "r_search"  -> PutId(reg, E.id, [reg[E.id] EXCEPT !.buf = IF E.id \in BufIds THEN BufOf(E.id) ELSE <<>>])
            IN /\ Step(RegProps(reg2, E.op = "r_search"), st, <<>>)
               /\ reg' = reg2
  /\ UNCHANGED <<mem, cs>>

TvNext ==
  /\ l <= NRec
  /\ l' = l + 1
  /\ (TvHeader \/ TvCase \/ TvNew \/ TvDrop \/ TvSkipped \/ TvAdd \/ TvClear \/ TvLimit \/ TvMarkers \/ TvSearch \/ TvPrepare \/ TvReg)

TvInit == /\ l = 1 /\ reg = NoRegistry /\ st = <<>> /\ mem = <<>> /\ cs = 0 /\ viol = <<>> /\ drift = <<>>
          /\ cnt = [p \in PropIds |-> 0]
TvSpec == TvInit /\ [][TvNext]_vars

\* printed once, when the whole trace has been consumed
Report == (l = NRec + 1) =>
            PrintT(<<"TV-RESULT", ToJson([events |-> NRec, viol |-> viol, drift |-> drift, cnt |-> cnt])>>)
\* the trace must be consumed to its end; otherwise the run is a tool error, never a pass
Consumed == TLCGet("stats").diameter - 1 = NRec
=============================================================================
