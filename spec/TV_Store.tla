------------------------------ MODULE TV_Store ------------------------------
(* Trace validation of store-level runs.  Each recorded event is one step: the       *)
(* specification's own store state (StoreOps.tla, variant "fixed") is advanced by   *)
(* the action the event names, the recorded projection of the real store is compared *)
(* with it (L2; differences are "drift"), and every property predicate of Props.tla *)
(* is evaluated on the event (L3; failures are findings).  Nothing stops at the     *)
(* first problem; the result is printed when the whole trace has been consumed.     *)
EXTENDS PropsCase, StoreOps

VARIABLES l,        \* next trace line
          st,       \* sid -> [lang, s, dead]: the specification's state of every live store
          mem,      \* tag -> hits, for relations between searches of one case
          cs,       \* the line of the current case header
          viol,     \* findings (property violations and tool errors)
          drift,    \* conformance differences (L2)
          cnt       \* property -> number of non-trivial evaluations
vars == <<l, st, mem, cs, viol, drift, cnt>>

PropIds == {"C01","C02","C03","C04","C05","C06","C07","C08","C09","C10","C11","C12","C13","C14","C15","C16","C17","C18","C19","C20","ood","L2"}

\* the trace specs do not evaluate the matcher; the operator parameters of StoreOps are not used
TVEval(rec, q, a, b) == [pass |-> FALSE, key |-> <<>>, title |-> <<>>]
TVQWords(q) == 0
TVQGrams(q) == {}

E == Rec[l]
Bump(c, names) ==
  LET RECURSIVE B(_, _)
      B(cc, ns) == IF ns = <<>> THEN cc ELSE B([cc EXCEPT ![Head(ns)] = @ + 1], Tail(ns))
  IN B(c, names)

Live(sid) == sid \in DOMAIN st /\ ~st[sid].dead
SetStore(sid, S) == [x \in DOMAIN st \cup {sid} |-> IF x = sid THEN S ELSE st[x]]
WithS(sid, s) == SetStore(sid, [st[sid] EXCEPT !.s = s])

\* L2: the recorded projection of the real store equals the specification's state
ProjDrift(s, line) ==
  IF ~Has(E, "proj") THEN <<>>
  ELSE LET P == E.proj IN
       Check(P.n = Len(s.records), line, "L2", "record count differs")
    \o Check(P.next_ix = s.nextIx, line, "L2", "next_ix differs")
    \o Check(P.limit = s.limit, line, "L2", "limit differs")
    \o Check(P.l = s.dividers.l /\ P.r = s.dividers.r, line, "L2", "markers differ")
    \o (IF Has(P, "index_len") THEN Check(P.index_len = s.index.len, line, "L2", "index length differs") ELSE <<>>)
    \o Check((P.cache = <<>>) <=> (s.topIxs = <<>>), line, "L2", "cache presence differs")
    \o (IF P.cache # <<>> /\ s.topIxs # <<>>
          THEN Check(P.cache[1] = Get(s.topIxs).ixs /\ P.cache_limit[1] = Get(s.topIxs).limit, line, "L2", "cache content differs") ELSE <<>>)

Step(res, newst, newdrift) ==
  /\ viol'  = viol \o [i \in DOMAIN res.f |-> [res.f[i] EXCEPT !.line = l] @@ [case |-> cs]]
  /\ cnt'   = Bump(cnt, res.n)
  /\ st'    = newst
  /\ drift' = drift \o newdrift

Skip == Step(NoRes, st, <<>>) /\ UNCHANGED <<mem, cs>>

TvHeader == E.op \in {"header", "chartable", "endcase"} /\ Skip
TvCase   == E.op = "case" /\ cs' = l /\ st' = <<>> /\ mem' = <<>> /\ UNCHANGED <<viol, drift, cnt>>
TvNew    == E.op = "new" /\ Step(NoRes, SetStore(E.sid, [lang |-> E.lang, s |-> NewStore, dead |-> FALSE]), <<>>) /\ UNCHANGED <<mem, cs>>
TvDrop   == E.op = "drop" /\ Step(NoRes, [x \in DOMAIN st \ {E.sid} |-> st[x]], <<>>) /\ UNCHANGED <<mem, cs>>

Dead(sid) == SetStore(sid, [st[sid] EXCEPT !.dead = TRUE])

\* an operation on a store that is gone or was left inconsistent by an earlier panic is not judged
TvSkipped == E.op \in {"add", "clear", "limit", "markers", "search", "prepare"} /\ (~Live(E.sid) \/ Has(E, "skipped")) /\ Skip

TvAdd ==
  /\ E.op = "add" /\ Live(E.sid) /\ ~Has(E, "skipped")
  /\ IF Has(E, "panic")
       THEN Step(C01(E, l), Dead(E.sid), <<>>)
       ELSE LET s2 == S_Add(st[E.sid].s, E.id, E.title, E.rating, E.tok) IN
            Step(C01(E, l), WithS(E.sid, s2),
                 ProjDrift(s2, l) \o Check(E.ix = st[E.sid].s.nextIx, l, "L2", "record position differs"))
  /\ UNCHANGED <<mem, cs>>

TvClear ==
  /\ E.op = "clear" /\ Live(E.sid) /\ ~Has(E, "skipped")
  /\ IF Has(E, "panic") THEN Step(C01(E, l), Dead(E.sid), <<>>)
     ELSE LET s2 == S_Clear(st[E.sid].s) IN Step(C01(E, l), WithS(E.sid, s2), ProjDrift(s2, l))
  /\ UNCHANGED <<mem, cs>>

TvLimit ==
  /\ E.op = "limit" /\ Live(E.sid) /\ ~Has(E, "skipped")
  /\ LET s2 == S_SetLimit(st[E.sid].s, E.limit) IN Step(NoRes, WithS(E.sid, s2), ProjDrift(s2, l))
  /\ UNCHANGED <<mem, cs>>

TvMarkers ==
  /\ E.op = "markers" /\ Live(E.sid) /\ ~Has(E, "skipped")
  /\ LET s2 == S_SetMarkers(st[E.sid].s, E.l, E.r) IN Step(NoRes, WithS(E.sid, s2), ProjDrift(s2, l))
  /\ UNCHANGED <<mem, cs>>

\* the cache after a search, as the specification sees it: an empty query (re)fills it with the list
\* the code reports, provided that list is one the specification allows (otherwise drift)
CacheAfter(s, P) ==
  IF Has(E, "qtok") /\ ~QHasWords(E) /\ Has(E, "proj") /\ E.proj.cache # <<>>
    THEN IF CacheUsable(s) THEN s.topIxs ELSE Some([limit |-> s.limit, ixs |-> E.proj.cache[1]])
    ELSE s.topIxs
CacheAllowed(s) ==
  \/ ~(Has(E, "qtok") /\ ~QHasWords(E) /\ Has(E, "proj") /\ E.proj.cache # <<>>)
  \/ CacheUsable(s)
  \/ LET items == RatingItems(s.records)
         ixs   == E.proj.cache[1]
     IN /\ \A i \in DOMAIN ixs : InRange(ixs[i], Len(items))
        /\ IsTopK([i \in DOMAIN ixs |-> items[ixs[i] + 1]], items, s.limit)

SearchProps(S) ==
  IF ~Has(E, "hits") THEN C01(E, l)
  ELSE JoinAll(<<
         C01(E, l),
         JoinAll([i \in DOMAIN E.hits |-> C02Hit(E.hits[i], S, l)]),
         C02Alt(E, S, l),
         JoinAll([i \in DOMAIN E.hits |-> C09Hit(E.hits[i], E, S, l)]),
         JoinAll([i \in DOMAIN E.hits |-> C05Hit(E.hits[i], E, S, l)]),
         C06Basic(E, S, l), C06Rel(E, S, l), C07Rel(E, S, l),
         C10(E, S, l), C12(E, S, l),
         IF Has(E, "expect") /\ Has(E, "qtok") THEN
           CASE E.expect.prop = "C03" -> C03(E, S, l)
             [] E.expect.prop = "C04" -> C04(E, S, l)
             [] E.expect.prop = "C05" -> C05Prefix(E, S, l)
             [] E.expect.prop = "C08" -> C08(E, S, l)
             [] E.expect.prop = "C11" -> C11(E, S, mem, st, l)
             [] E.expect.prop = "C13" -> C13(E, S, l)
             [] E.expect.prop = "C14" -> C14(E, S, l)
             [] OTHER -> NoRes
         ELSE NoRes >>)

TvSearch ==
  /\ E.op = "search" /\ Live(E.sid) /\ ~Has(E, "skipped")
  /\ LET S == st[E.sid] IN
     IF Has(E, "panic") THEN Step(SearchProps(S), Dead(E.sid), <<>>)
     ELSE LET s2 == [S.s EXCEPT !.topIxs = CacheAfter(S.s, E)] IN
          Step(SearchProps(S), WithS(E.sid, s2),
               Check(CacheAllowed(S.s), l, "L2", "cached top-rated list is not a top-`limit` list of the records")
               \o ProjDrift(s2, l))
  /\ mem' = IF Has(E, "tag") /\ Has(E, "hits") THEN [x \in DOMAIN mem \cup {E.tag} |-> IF x = E.tag THEN [hits |-> E.hits, q |-> E.q, sid |-> E.sid] ELSE mem[x]] ELSE mem
  /\ UNCHANGED cs

TvNext ==
  /\ l <= NRec
  /\ l' = l + 1
  /\ (TvHeader \/ TvCase \/ TvNew \/ TvDrop \/ TvSkipped \/ TvAdd \/ TvClear \/ TvLimit \/ TvMarkers \/ TvSearch)

TvInit == /\ l = 1 /\ st = <<>> /\ mem = <<>> /\ cs = 0 /\ viol = <<>> /\ drift = <<>>
          /\ cnt = [p \in PropIds |-> 0]
TvSpec == TvInit /\ [][TvNext]_vars

\* printed once, when the whole trace has been consumed
Report == (l = NRec + 1) =>
            PrintT(<<"TV-RESULT", ToJson([events |-> NRec, viol |-> viol, drift |-> drift, cnt |-> cnt])>>)
\* the trace must be consumed to its end; otherwise the run is a tool error, never a pass
Consumed == TLCGet("stats").diameter - 1 = NRec
=============================================================================
