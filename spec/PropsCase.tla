----------------------------- MODULE PropsCase -----------------------------
(* Properties whose quantifier picks a particular record, word, edit or scenario     *)
(* (C03, C04, C05 exact prefix, C08, C11, C13, C14).  The generator announces what a *)
(* search is a case of in the field `expect`; the predicate first re-establishes,    *)
(* with the specification's own operators and state, that the case lies in the       *)
(* property's domain (otherwise it is counted as out of domain and not judged), and  *)
(* then evaluates the property's conclusion on the recorded hits.                    *)
EXTENDS Props

InHits(E, id)   == \E i \in DOMAIN E.hits : E.hits[i].id = id
PosOf(E, id)    == CHOOSE i \in DOMAIN E.hits : E.hits[i].id = id
SmallStore(s)   == Len(s.records) <= s.limit /\ UniqueIds(s)
QWord(E, i)     == WordChars(E.qtok, i)
RWord(S, id, i) == WordChars(RecOfS(S, id).tok, i)
NWords(tok)     == Len(tok.words)
AllAlpha(w)     == \A i \in DOMAIN w : TVCI(w[i]).alpha
Distinct(w)     == Cardinality(SeqRange(w))
\* a slice of the recorded original array, empty when the recorded bounds do not fit it (a malformed tokenisation is
\* C15's finding; the predicates here must not fail inside an operator because of it)
SrcSlice(tok, a, b) == IF a >= 0 /\ a <= b /\ b <= Len(tok.source) THEN StripNul(SubSeq(tok.source, a + 1, b)) ELSE <<>>

\* the letters a language's script offers for substitutions and insertions
Script(lang) == IF lang = "none" THEN 97..122
                ELSE IF lang = "ru" THEN { c \in DOMAIN ClassesOf(lang) : c >= 1024 }
                ELSE DOMAIN ClassesOf(lang)

\* v is w with exactly one edit
IsSubst(w, v) == Len(v) = Len(w) /\ Cardinality({ i \in DOMAIN w : w[i] # v[i] }) = 1
IsInsert(w, v) == Len(v) = Len(w) + 1 /\ \E i \in DOMAIN v : Without(v, i) = w
IsDelete(w, v) == IsInsert(v, w)
IsSwap(w, v)   == Len(v) = Len(w) /\ \E i \in 1..(Len(w) - 1) :
                     /\ w[i] # w[i + 1] /\ v[i] = w[i + 1] /\ v[i + 1] = w[i]
                     /\ \A j \in DOMAIN w : j \notin {i, i + 1} => v[j] = w[j]
IsOneEdit(w, v) == IsSubst(w, v) \/ IsInsert(w, v) \/ IsDelete(w, v) \/ IsSwap(w, v)

----------------------------------------------------------------------------
\* C03: a typed prefix of a title word finds the record
C03(E, S, line) ==
  LET X == E.expect  s == S.s IN
  ChkIf(/\ HasRecS(S, X.rid) /\ SmallStore(s)
        /\ X.widx \in 1..NWords(RecOfS(S, X.rid).tok)
        \* what was typed is a prefix of the title word: either as the query tokeniser reads it, or literally (the
        \* characters typed are the first characters of the word as the record tokeniser reports it, ending in a letter
        \* or digit) - the two coincide as long as normalising twice changes nothing
        /\ \/ /\ NWords(E.qtok) = 1 /\ ~E.qtok.words[1].fin
              /\ IsPrefixOf(QWord(E, 1), RWord(S, X.rid, X.widx))
           \/ /\ Len(E.q) >= 1 /\ IsPrefixOf(E.q, RWord(S, X.rid, X.widx))
              /\ IsAlnum(E.q[Len(E.q)])
           \* ... or the first characters of the word as it is written in the title (upper case, accents and sharp s
           \* as in the original), again ending in a letter or digit
           \/ /\ Len(E.q) >= 1 /\ IsAlnum(E.q[Len(E.q)])
              /\ LET tok == RecOfS(S, X.rid).tok
                     src == SrcSlice(tok, tok.words[X.widx].s, tok.words[X.widx].e)
                 IN IsPrefixOf(E.q, src),
        InHits(E, X.rid), line, "C03", "a prefix of a title word does not find the record")

\* C04: one edit in a word of >= 5 letters (>= 3 distinct) still finds the record
C04(E, S, line) ==
  LET X == E.expect  s == S.s IN
  ChkIf(/\ HasRecS(S, X.rid) /\ SmallStore(s)
        /\ X.widx \in 1..NWords(RecOfS(S, X.rid).tok)
        /\ LET w == RWord(S, X.rid, X.widx) IN
           /\ Len(w) >= 5 /\ AllAlpha(w) /\ Distinct(w) >= 3
           \* the query is one unfinished word that normalisation leaves unchanged - as the SPECIFICATION's tokeniser reads
           \* what was typed (Tokenize.tla with the tables of Langs.tla), not as the code under test reports it: a change
           \* that rewrites the query on its way in must not be able to move its own inputs out of the domain
           /\ LET sq == Tokenize(S.lang, E.q, TRUE) IN
              /\ Len(sq.words) = 1 /\ ~sq.words[1].fin /\ sq.words[1].s = 0 /\ sq.words[1].e = Len(E.q)
              /\ sq.chars = E.q /\ sq.source = E.q
           /\ LET v == E.q IN
              /\ Len(v) >= 1 /\ AllAlpha(v)
              /\ SeqRange(v) \subseteq (SeqRange(w) \cup Script(S.lang))
              /\ v # w /\ IsOneEdit(w, v),
        InHits(E, X.rid), line, "C04", "a single typo in a long word loses the record")

\* C13: the whole title, or its first and last words in either order, find the record
C13(E, S, line) ==
  LET X == E.expect  s == S.s IN
  IF X.kind = "whole" THEN
    ChkIf(HasRecS(S, X.rid) /\ SmallStore(s) /\ NWords(RecOfS(S, X.rid).tok) >= 1 /\ E.q = RecOfS(S, X.rid).title,
          InHits(E, X.rid), line, "C13", "the full title does not find its record")
  ELSE
    ChkIf(/\ HasRecS(S, X.rid) /\ SmallStore(s)
          /\ LET tok == RecOfS(S, X.rid).tok
                 n == NWords(tok)
                 src(i) == SrcSlice(tok, tok.words[i].s, tok.words[i].e)
             IN
             /\ n >= 2
             \* two complete words of the title: as the query tokeniser reads the input, or literally - the two words as the
             \* record tokeniser reports them, or as they are written in the title, one blank between them
             /\ \/ /\ NWords(E.qtok) = 2
                   /\ {<<QWord(E, 1), QWord(E, 2)>>} \subseteq
                        {<<RWord(S, X.rid, 1), RWord(S, X.rid, n)>>, <<RWord(S, X.rid, n), RWord(S, X.rid, 1)>>}
                \/ E.q \in { RWord(S, X.rid, 1) \o <<32>> \o RWord(S, X.rid, n), RWord(S, X.rid, n) \o <<32>> \o RWord(S, X.rid, 1),
                             src(1) \o <<32>> \o src(n), src(n) \o <<32>> \o src(1) },
          InHits(E, X.rid), line, "C13", "two complete title words do not find the record")

\* C14: split and joined spellings
C14(E, S, line) ==
  LET X == E.expect  s == S.s IN
  IF X.kind = "split" THEN
    ChkIf(/\ HasRecS(S, X.rid) /\ SmallStore(s) /\ X.widx \in 1..NWords(RecOfS(S, X.rid).tok)
          /\ Len(RWord(S, X.rid, X.widx)) >= 3
          /\ NWords(E.qtok) = 2 /\ QWord(E, 1) \o QWord(E, 2) = RWord(S, X.rid, X.widx)
          /\ E.qtok.words[2].s - E.qtok.words[1].e = 1            \* the two parts are one separator apart (DESIGN.md 8)
          /\ Len(E.qtok.chars) = E.qtok.words[2].e /\ E.qtok.words[1].s = 0,
          InHits(E, X.rid), line, "C14", "a title word typed as two words does not find the record")
  ELSE IF X.kind = "split_raw" THEN
    \* the word as it is spelled in the title (symbols inside it included), typed with one separator put in at any point
    ChkIf(/\ HasRecS(S, X.rid) /\ SmallStore(s) /\ X.widx \in 1..NWords(RecOfS(S, X.rid).tok)
          /\ LET tok == RecOfS(S, X.rid).tok
                 src == SrcSlice(tok, tok.words[X.widx].s, tok.words[X.widx].e)
             IN /\ Len(RWord(S, X.rid, X.widx)) >= 3
                /\ \E k \in 1..(Len(src) - 1) : \E j \in {k + 1} :
                      /\ Len(E.q) = Len(src) + 1 /\ IsSep(E.q[j])
                      /\ SubSeq(E.q, 1, k) = SubSeq(src, 1, k) /\ SubSeq(E.q, j + 1, Len(E.q)) = SubSeq(src, k + 1, Len(src))
                      /\ (\E i \in 1..k : IsAlnum(src[i])) /\ (\E i \in (k + 1)..Len(src) : IsAlnum(src[i])),
          InHits(E, X.rid), line, "C14", "a title word typed with one separator inside it does not find the record")
  ELSE
    ChkIf(/\ HasRecS(S, X.rid) /\ SmallStore(s)
          /\ LET tok == RecOfS(S, X.rid).tok IN
             /\ X.widx \in 1..(NWords(tok) - 1)
             /\ tok.words[X.widx + 1].s - tok.words[X.widx].e = 1
             /\ NWords(E.qtok) = 1
             /\ QWord(E, 1) = RWord(S, X.rid, X.widx) \o RWord(S, X.rid, X.widx + 1)
             /\ Len(QWord(E, 1)) >= 3
             /\ E.qtok.words[1].stem = Len(QWord(E, 1)),
          InHits(E, X.rid), line, "C14", "two title words typed as one do not find the record")

\* C05 (last clause): an exact prefix of a one-word title highlights exactly what was typed
C05Prefix(E, S, line) ==
  LET X == E.expect  s == S.s IN
  IF ~(HasRecS(S, X.rid) /\ Sentinels(s) /\ InHits(E, X.rid)) THEN Res(<<>>, <<"ood">>)
  ELSE LET tok == RecOfS(S, X.rid).tok
           p   == ParseHL(E.hits[PosOf(E, X.rid)].title)
           \* the typed word as the SPECIFICATION's tokeniser reads the raw query (see C04): one unfinished word
           sq  == Tokenize(S.lang, E.q, TRUE)
           qw  == IF Len(sq.words) = 1 /\ ~sq.words[1].fin THEN SubSeq(sq.chars, sq.words[1].s + 1, sq.words[1].e) ELSE <<>>
       IN ChkIf(/\ SentinelFree(RecOfS(S, X.rid).title) /\ p.ok
                /\ NWords(tok) = 1 /\ qw # <<>>
                /\ IsPrefixOf(qw, WordChars(tok, 1)),
                /\ Len(p.spans) = 1
                /\ SubSeq(p.plain, p.spans[1].a + 1, p.spans[1].b)
                     = SrcSlice(tok, tok.words[1].s, tok.words[1].s + Len(qw)),
                line, "C05", "exact prefix of a one-word title is not highlighted exactly")

----------------------------------------------------------------------------
\* C08: documented ranking priorities, whatever the ratings
SP == <<32>>
TitleOfId(S, id) == RecOfS(S, id).title
C08Domain(E, S) ==
  LET X == E.expect  s == S.s  u == X.u  v == X.v  x == X.x IN
  /\ Len(s.records) = 2 /\ HasRecS(S, X.a) /\ HasRecS(S, X.b) /\ X.a # X.b /\ s.limit >= 2
  /\ SeqRange(u) \cap SeqRange(v) = {} /\ SeqRange(u) \cap SeqRange(x) = {} /\ SeqRange(v) \cap SeqRange(x) = {}
  /\ Len(u) \in 5..9 /\ Len(v) \in 5..9 /\ Len(x) >= 1
  /\ AllAlpha(u) /\ AllAlpha(v) /\ AllAlpha(x)
  /\ \A id \in {X.a, X.b} : \A i \in DOMAIN RecOfS(S, id).tok.words :
        ~RecOfS(S, id).tok.words[i].func \/ X.scenario = "function"
  /\ LET A == TitleOfId(S, X.a)  B == TitleOfId(S, X.b)  q == E.q
         ra == RecOfS(S, X.a).rating  rb == RecOfS(S, X.b).rating IN
     CASE X.scenario = "exact_vs_typo" -> A = u /\ B # u /\ IsOneEdit(u, B) /\ AllAlpha(B) /\ q = u
       [] X.scenario = "both_vs_one"   -> A = u \o SP \o v /\ B \in {u, v, u \o SP \o x, x \o SP \o v} /\ q = u \o SP \o v
       [] X.scenario = "short_vs_long" -> A = u /\ IsPrefixOf(u, B) /\ Len(B) > Len(u) /\ AllAlpha(B)
                                          /\ IsPrefixOf(q, u) /\ Len(q) >= 1
       [] X.scenario = "word_order"    -> A = u \o SP \o v \o SP \o x /\ B = u \o SP \o x \o SP \o v /\ q = u \o SP \o v
       [] X.scenario = "position"      -> A = u \o SP \o x /\ B = x \o SP \o u /\ q = u
       [] X.scenario = "rating"        -> A = B /\ ra > rb /\ IsPrefixOf(q, u) /\ Len(q) >= 1 /\ IsPrefixOf(u, A)
       [] X.scenario = "length"        -> A = u /\ B = u \o SP \o x /\ ra = rb /\ q = u
       [] X.scenario = "function"      -> /\ NWords(E.qtok) = 1 /\ IsFunctionWord(S.lang, QWord(E, 1))
                                          /\ NWords(RecOfS(S, X.a).tok) = 1
                                          /\ IsPrefixOf(QWord(E, 1), RWord(S, X.a, 1)) /\ Len(RWord(S, X.a, 1)) > Len(QWord(E, 1))
                                          /\ ~RecOfS(S, X.a).tok.words[1].func
                                          /\ \E i \in DOMAIN RecOfS(S, X.b).tok.words : WordChars(RecOfS(S, X.b).tok, i) = QWord(E, 1)
       [] OTHER -> FALSE
C08(E, S, line) ==
  LET X == E.expect IN
  ChkIf(C08Domain(E, S),
        InHits(E, X.a) /\ (InHits(E, X.b) => PosOf(E, X.a) < PosOf(E, X.b)),
        line, "C08", "documented ranking priority violated: " \o X.scenario)

----------------------------------------------------------------------------
\* C11: variants of a query (case, decomposition, folded accents, leading separators) give the same answer
DecomposeOf(lang, c) ==      \* the two-character spelling the language composes into c, or <<c>>
  LET ks == { k \in DOMAIN ComposeOf(lang) : ComposeOf(lang)[k] = <<c>> } IN
  IF ks = {} THEN <<c>> ELSE CHOOSE k \in ks : TRUE
OtherCase(c) ==
  LET i == TVCI(c) IN
  IF i.upper /\ i.lowerLen = 1 /\ i.lower # c /\ c \in DOMAIN CTab /\ i.lower \in DOMAIN CTab /\ TVCI(i.lower).upperm = <<c>> THEN <<i.lower>>
  ELSE IF i.lowercase /\ Len(i.upperm) = 1 /\ i.upperm[1] # c /\ i.upperm[1] \in DOMAIN CTab
          /\ TVCI(i.upperm[1]).lowerLen = 1 /\ TVCI(i.upperm[1]).lower = c THEN i.upperm
  ELSE <<c>>
FoldOf(lang, c) == IF <<c>> \in DOMAIN ReduceOf(lang) THEN ReduceOf(lang)[<<c>>] ELSE <<c>>
Marks(lang) == { k[2] : k \in DOMAIN ComposeOf(lang) }
VariantOf(lang, base, ops, prefix) ==
  prefix \o Flatten([i \in DOMAIN base |->
    CASE ops[i] = "c" -> OtherCase(base[i])
      [] ops[i] = "d" -> DecomposeOf(lang, base[i])
      [] ops[i] = "f" -> FoldOf(lang, base[i])
      [] OTHER -> <<base[i]>>])
C11Domain(E, S) ==
  LET X == E.expect IN
  /\ Len(X.ops) = Len(X.base)
  /\ \A i \in DOMAIN X.prefix : IsSep(X.prefix[i])
  /\ SeqRange(X.base) \cap Marks(S.lang) = {}
  /\ E.q = VariantOf(S.lang, X.base, X.ops, X.prefix)
SameStoreDecomposed(lang, P, D) ==      \* D holds the records of P with titles spelled decomposed
  /\ Len(P.records) = Len(D.records) /\ P.limit = D.limit /\ P.dividers = D.dividers
  /\ \A i \in DOMAIN P.records :
        /\ P.records[i].id = D.records[i].id /\ P.records[i].rating = D.records[i].rating
        /\ SeqRange(P.records[i].title) \cap Marks(lang) = {}
        /\ ComposeSeq(lang, D.records[i].title) = P.records[i].title
C11(E, S, m, stf, line) ==
  LET X == E.expect IN
  IF X.kind = "variant" THEN
    ChkIf(X.tag \in DOMAIN m /\ m[X.tag].q = X.base /\ m[X.tag].sid = E.sid /\ C11Domain(E, S),
          E.hits = m[X.tag].hits, line, "C11", "a case / composition / accent / separator variant of the query changes the answer")
  ELSE \* the same query on a store whose titles are stored decomposed
    ChkIf(/\ X.tag \in DOMAIN m /\ m[X.tag].q = E.q /\ m[X.tag].sid \in DOMAIN stf
          /\ stf[m[X.tag].sid].lang = S.lang
          /\ SameStoreDecomposed(S.lang, stf[m[X.tag].sid].s, S.s),
          E.hits = m[X.tag].hits, line, "C11", "storing titles decomposed changes the answer")
=============================================================================
