------------------------------- MODULE Binding -------------------------------
(* The binding layer between the core's top-level API (Registry.tla) and a JavaScript *)
(* user: the wasm glue of rust/wasm/src/lib.rs and the `LucidSuggest` class of        *)
(* javascript/src/index.js.                                                           *)
(*                                                                                    *)
(*  - wire format: get_result_ids returns the ids, get_result_titles returns every    *)
(*    title followed by NUL in one string; index.js splits that string on NUL and     *)
(*    pairs the pieces with the ids.  This is why the core must never hand out a NUL  *)
(*    inside a title (property C02) - the lemma WireExact below is the reason.        *)
(*  - chunks: the class sets the markers to "{{" and "}}" and cuts the returned title *)
(*    at every "{{" or "}}" into alternately plain and highlighted chunks.            *)
(*  - call sequence: every public method of the class is a fixed sequence of glue     *)
(*    calls; calls on one instance take effect in the order they were issued, whether *)
(*    or not the caller awaits them (a promise chain per instance).                   *)
EXTENDS Bridge       \* Frame / Unframe (NUL framing), SplitMarkers / Chunks (toChunks), LB, RB

OpenM  == <<LB, LB>>
CloseM == <<RB, RB>>

----------------------------------------------------------------------------
\* rust/wasm/src/lib.rs: results is the core's result buffer, a sequence of [id, title]
WireIds(results)    == [i \in DOMAIN results |-> results[i].id]
WireTitles(results) == Frame([i \in DOMAIN results |-> results[i].title])
JsSplit(s, c)       == Unframe(s)          \* String.prototype.split on NUL
ToChunks(t)         == Chunks(t)           \* toChunks

\* highlight(hit, left, right) and the `title` getter of Hit
HitTitle(chunks, left, right) ==
  Flatten([k \in DOMAIN chunks |-> IF chunks[k].highlight THEN left \o chunks[k].text \o right ELSE chunks[k].text])

\* LucidSuggest.search after the glue calls: `known` is the set of record ids the instance has been given
JsDecode(known, ids, wire) ==
  LET titles == JsSplit(wire, 0)
      \* `titles[i]` beyond the pieces is `undefined` in JavaScript, which `!title` treats like the empty string
      titleAt(i) == IF i \in DOMAIN titles THEN titles[i] ELSE <<>>
      bad(i) == ids[i] \notin known \/ titleAt(i) = <<>>
      B      == { i \in DOMAIN ids : bad(i) }
  IN IF B # {} THEN
       LET f == CHOOSE i \in B : \A j \in B : i <= j IN
       [throws |-> IF ids[f] \notin known THEN "Missing record" ELSE "Missing title", hits |-> <<>>]
     ELSE [throws |-> "", hits |-> [i \in DOMAIN ids |-> [id |-> ids[i], chunks |-> ToChunks(titleAt(i))]]]

JsSearch(known, results) == JsDecode(known, WireIds(results), WireTitles(results))

----------------------------------------------------------------------------
\* Lemmas checked by TLC over a small universe (MC_Binding)

\* what the core promises about a result buffer (C02: no NUL; C20/C06: ids are record ids)
CoreResult(known, results) ==
  \A i \in DOMAIN results : results[i].id \in known /\ 0 \notin SeqRange(results[i].title)

\* the wire format loses nothing, provided no title is empty
WireExact(known, results) ==
  (CoreResult(known, results) /\ \A i \in DOMAIN results : results[i].title # <<>>) =>
     LET o == JsSearch(known, results) IN
     /\ o.throws = "" /\ Len(o.hits) = Len(results)
     /\ \A i \in DOMAIN results : o.hits[i].id = results[i].id /\ o.hits[i].chunks = ToChunks(results[i].title)

\* a record whose whole title is empty (it can only be returned by the empty query) makes search() throw
EmptyTitleThrows(known, results) ==
  (CoreResult(known, results) /\ \E i \in DOMAIN results : results[i].title = <<>>) =>
     JsSearch(known, results).throws = "Missing title"

\* well-formed spans over a plain title: ordered, non-empty, non-overlapping (they may touch)
WellFormedSpans(plain, spans) ==
  /\ \A k \in DOMAIN spans : 0 <= spans[k].a /\ spans[k].a < spans[k].b /\ spans[k].b <= Len(plain)
  /\ \A k \in 1..(Len(spans) - 1) : spans[k].b <= spans[k + 1].a
Covered(spans) == UNION { (spans[k].a + 1)..spans[k].b : k \in DOMAIN spans }
\* positions of the concatenated chunk texts that lie in highlighted chunks
RECURSIVE ChunkCover(_, _, _)
ChunkCover(chunks, k, pos) ==
  IF k > Len(chunks) THEN {}
  ELSE (IF chunks[k].highlight THEN (pos + 1)..(pos + Len(chunks[k].text)) ELSE {})
       \cup ChunkCover(chunks, k + 1, pos + Len(chunks[k].text))
ChunkText(chunks) == Flatten([k \in DOMAIN chunks |-> chunks[k].text])

\* the chunks are exactly the core's spans, provided the plain title contains no brace pair that reads as a marker
BraceFree(plain) == \A i \in 1..(Len(plain) - 1) : ~(plain[i] = plain[i + 1] /\ plain[i] \in {LB, RB})
NoBraceAtAll(plain) == LB \notin SeqRange(plain) /\ RB \notin SeqRange(plain)
ChunksExact(plain, spans) ==
  LET ch == ToChunks(InsertMarkers(plain, spans, OpenM, CloseM)) IN
  ChunkText(ch) = plain /\ ChunkCover(ch, 1, 0) = Covered(spans)
=============================================================================
