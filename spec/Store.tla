------------------------------- MODULE Store -------------------------------
(* The single-store machine: one variable holding a store record, one action per    *)
(* public call (definitions in StoreOps.tla).                                       *)
EXTENDS StoreOps
VARIABLE store

InitStore          == store = NewStore
Add(id, t, rt, tk) == store' = S_Add(store, id, t, rt, tk)
Clear              == store' = S_Clear(store)
SetLimit(n)        == store' = S_SetLimit(store, n)
SetMarkers(l, r)   == store' = S_SetMarkers(store, l, r)
Search(q, res)     == res \in S_SearchOutcomes(store, q) /\ store' = S_AfterSearch(store, res)
=============================================================================
