------------------------------ MODULE Highlight ------------------------------
(* search/highlight.rs and its inverse.                                             *)
(* Render: walk the words of the (NUL padded) `source`, copy gaps, wrap the matched *)
(* prefix of a matched word in the markers, finally delete every NUL.               *)
(* Reference side: parsing a title rendered with sentinel markers into the plain    *)
(* title and its spans, and inserting arbitrary markers at given spans.             *)
EXTENDS Base

SL == 57344       \* U+E000, U+E001: private-use sentinels, never generated inside titles
SR == 57345

StripNul(s) == SelectSeq(s, LAMBDA c : c # 0)

\* highlight(hit, (left, right)): words = [s, e] slices, matches = [offset, sub] (matched prefix length)
Render(source, words, matches, left, right) ==
  LET RECURSIVE Walk(_, _, _)
      Walk(i, pos, acc) ==          \* i: word number (1-based); pos: 0-based position reached
        IF i > Len(words) THEN acc \o SubSeq(source, pos + 1, Len(source))
        ELSE LET w  == words[i]
                 ks == { k \in DOMAIN matches : matches[k].offset = i - 1 }
             IN IF ks = {} THEN Walk(i + 1, w.e, acc \o SubSeq(source, pos + 1, w.e))
                ELSE LET m  == matches[CHOOSE k \in ks : \A o \in ks : k <= o]      \* `find`: first in list order
                         me == w.s + m.sub
                     IN Walk(i + 1, w.e,
                             acc \o SubSeq(source, pos + 1, w.s) \o left \o SubSeq(source, w.s + 1, me)
                                 \o right \o SubSeq(source, me + 1, w.e))
  IN StripNul(Walk(1, 0, <<>>))

----------------------------------------------------------------------------
\* Parsing a title rendered with the sentinels: plain text and spans [a, b) in plain coordinates (0-based)
RECURSIVE ParseFrom(_, _, _, _, _)
ParseFrom(t, i, plain, spans, open) ==
  IF i > Len(t) THEN [ok |-> open = -1, plain |-> plain, spans |-> spans]
  ELSE IF t[i] = SL THEN (IF open # -1 THEN [ok |-> FALSE, plain |-> plain, spans |-> spans]
                          ELSE ParseFrom(t, i + 1, plain, spans, Len(plain)))
  ELSE IF t[i] = SR THEN (IF open = -1 THEN [ok |-> FALSE, plain |-> plain, spans |-> spans]
                          ELSE ParseFrom(t, i + 1, plain, Append(spans, [a |-> open, b |-> Len(plain)]), -1))
  ELSE ParseFrom(t, i + 1, Append(plain, t[i]), spans, open)
ParseHL(t) == ParseFrom(t, 1, <<>>, <<>>, -1)

\* Parsing a title rendered with arbitrary markers L, R (non-empty, neither a prefix of the other). Meant for titles whose
\* plain text contains no character of either marker: then every marker character in the rendered title belongs to a
\* marker, and a left-over marker character in the plain text means the markup is garbled (ok = FALSE).
RECURSIVE ParseWithFrom(_, _, _, _, _, _, _)
ParseWithFrom(t, L, R, i, plain, spans, open) ==
  IF i > Len(t) THEN [ok |-> open = -1 /\ SeqRange(plain) \cap (SeqRange(L) \cup SeqRange(R)) = {}, plain |-> plain, spans |-> spans]
  ELSE IF i + Len(L) - 1 <= Len(t) /\ SubSeq(t, i, i + Len(L) - 1) = L THEN
         (IF open # -1 THEN [ok |-> FALSE, plain |-> plain, spans |-> spans]
          ELSE ParseWithFrom(t, L, R, i + Len(L), plain, spans, Len(plain)))
  ELSE IF i + Len(R) - 1 <= Len(t) /\ SubSeq(t, i, i + Len(R) - 1) = R THEN
         (IF open = -1 THEN [ok |-> FALSE, plain |-> plain, spans |-> spans]
          ELSE ParseWithFrom(t, L, R, i + Len(R), plain, Append(spans, [a |-> open, b |-> Len(plain)]), -1))
  ELSE ParseWithFrom(t, L, R, i + 1, Append(plain, t[i]), spans, open)
ParseWith(t, L, R) == ParseWithFrom(t, L, R, 1, <<>>, <<>>, -1)
MarkersParseable(L, R) ==
  /\ L # <<>> /\ R # <<>>
  /\ ~(Len(L) <= Len(R) /\ SubSeq(R, 1, Len(L)) = L) /\ ~(Len(R) <= Len(L) /\ SubSeq(L, 1, Len(R)) = R)

\* the plain title with markers `left`/`right` put around the spans
InsertMarkers(plain, spans, left, right) ==
  LET RECURSIVE Ins(_, _, _)
      Ins(k, pos, acc) ==
        IF k > Len(spans) THEN acc \o SubSeq(plain, pos + 1, Len(plain))
        ELSE Ins(k + 1, spans[k].b,
                 acc \o SubSeq(plain, pos + 1, spans[k].a) \o left \o SubSeq(plain, spans[k].a + 1, spans[k].b) \o right)
  IN Ins(1, 0, <<>>)

\* positions (1-based) of `source` that survive the removal of NUL, in order
NonNulPos(source) ==
  LET RECURSIVE F(_, _)
      F(i, acc) == IF i > Len(source) THEN acc ELSE F(i + 1, IF source[i] # 0 THEN Append(acc, i) ELSE acc)
  IN F(1, <<>>)

\* a span [a, b) of the plain title expressed as the 0-based slice [s, e) of `source` that covers
\* exactly its characters (NUL padding that follows the last character is not included)
SpanInSource(source, span) ==
  LET nn == NonNulPos(source) IN [s |-> nn[span.a + 1] - 1, e |-> nn[span.b]]
=============================================================================
