SPECIFICATION Spec
CONSTANTS
  ULen = 5
  XLen = 3
  Scenario = "exact_vs_typo"
INVARIANT Priority
CHECK_DEADLOCK FALSE
