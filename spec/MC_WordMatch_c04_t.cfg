SPECIFICATION Spec
CONSTANTS
  NSym = 4
  MinLen = 5
  MaxLen = 5
  Mode = "edit"
  Stems = "all"
INVARIANTS Found SharesGram ScoreSafe
CHECK_DEADLOCK FALSE
