SPECIFICATION Spec
CONSTANTS
  Lang = "ru"
  MaxLen = 3
  Alphabet <- AlphaRu
  CI <- MCI
INVARIANTS WellFormedBoth VariantsAgree
CHECK_DEADLOCK FALSE
