SPECIFICATION Spec
CONSTANTS
  Lang = "ru"
  MaxLen = 3
  Alphabet <- AlphaRu
  CI <- MCI
INVARIANTS WellFormedBoth VariantsAgree Idempotent
CHECK_DEADLOCK FALSE
