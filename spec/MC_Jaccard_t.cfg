SPECIFICATION Spec
CONSTANTS
  MaxLen = 4
  MaxCalls = 1
  NSym = 3
INVARIANTS TrueSimilarity InUnit Symmetric HistoryFree InBoundsAll
CHECK_DEADLOCK FALSE
