------------------------------- MODULE Bridge -------------------------------
(* rust/wasm/src/lib.rs and javascript/src/index.js: how results cross the WASM     *)
(* boundary and how the JavaScript wrapper reads them.                              *)
(*   get_result_titles  concatenates the titles, each followed by NUL;              *)
(*   LucidSuggest.search splits that string at NUL and pairs piece i with id i;     *)
(*   the wrapper always sets the markers to "{{" and "}}" and toChunks splits a     *)
(*   title at every "{{" or "}}", taking every second piece as highlighted.         *)
(* This is why a returned title must never contain NUL (C02) and why highlight      *)
(* markup must alternate (C09).                                                     *)
EXTENDS Base, Highlight

\* get_result_titles
Frame(titles) == Flatten([i \in DOMAIN titles |-> titles[i] \o <<0>>])

\* String.prototype.split('\0'): pieces between NULs (n NULs give n + 1 pieces)
RECURSIVE SplitNul(_, _, _)
SplitNul(s, i, cur) ==
  IF i > Len(s) THEN <<cur>>
  ELSE IF s[i] = 0 THEN <<cur>> \o SplitNul(s, i + 1, <<>>)
  ELSE SplitNul(s, i + 1, Append(cur, s[i]))
Unframe(s) == SplitNul(s, 1, <<>>)

\* what search() pairs with the ids: piece i for hit i; an empty piece makes it throw "Missing title"
JsTitles(ids, titles) ==
  LET pieces == Unframe(Frame(titles)) IN
  [i \in DOMAIN ids |-> IF i <= Len(pieces) THEN pieces[i] ELSE <<>>]
JsThrows(ids, titles) == \E i \in DOMAIN ids : JsTitles(ids, titles)[i] = <<>>

----------------------------------------------------------------------------
\* toChunks with the markers "{{" = <<123,123>> and "}}" = <<125,125>>: pieces between markers of either kind
LB == 123
RB == 125
RECURSIVE SplitMarkers(_, _, _)
SplitMarkers(s, i, cur) ==
  IF i > Len(s) THEN <<cur>>
  ELSE IF i < Len(s) /\ s[i] = s[i + 1] /\ s[i] \in {LB, RB} THEN <<cur>> \o SplitMarkers(s, i + 2, <<>>)
  ELSE SplitMarkers(s, i + 1, Append(cur, s[i]))
Chunks(title) ==
  LET pieces == SplitMarkers(title, 1, <<>>)
      all == [i \in DOMAIN pieces |-> [text |-> pieces[i], highlight |-> (i % 2 = 0)]]     \* index i - 1 odd
  IN SelectSeq(all, LAMBDA c : c.text # <<>>)

\* what the wrapper should see: the plain title cut at the span borders
ExpectedChunks(plain, spans) ==
  LET RECURSIVE Cut(_, _, _)
      Cut(k, pos, acc) ==
        IF k > Len(spans) THEN acc \o <<[text |-> SubSeq(plain, pos + 1, Len(plain)), highlight |-> FALSE]>>
        ELSE Cut(k + 1, spans[k].b, acc \o <<[text |-> SubSeq(plain, pos + 1, spans[k].a), highlight |-> FALSE],
                                             [text |-> SubSeq(plain, spans[k].a + 1, spans[k].b), highlight |-> TRUE]>>)
  IN SelectSeq(Cut(1, 0, <<>>), LAMBDA c : c.text # <<>>)
=============================================================================
