--------------------------- MODULE StoreIndexInd ---------------------------
(* Store + TrigramIndex (StoreOps.tla: S_Add, S_Clear, IndexConsistent, AddSafe,     *)
(* PositionsValid) restated with Apalache type annotations, to discharge by          *)
(* induction - for histories of add / clear / search of ANY length - the structural  *)
(* facts the search path relies on: the index counts exactly the records held, every *)
(* posting is the position of a held record that contains the gram, posting lists    *)
(* increase strictly (the debug_assert of TrigramIndex::add), and therefore every    *)
(* candidate position `prepare` can return indexes `records` (C01: no out-of-bounds  *)
(* panic; C18: positions of existing records; C19: counter accesses in range).       *)
(* Variant = "pinned" is the pinned commit, where `clear` leaves the index           *)
(* populated: Apalache refutes the invariant for it (self-test).                     *)
EXTENDS Integers, Sequences, FiniteSets, Apalache

CONSTANTS
  \* @type: Set(Int);
  GRAMS,
  \* @type: Str;
  Variant

VARIABLES
  \* the gram set of every held record, in position order
  \* @type: Seq(Set(Int));
  records,
  \* @type: Int;
  nextIx,
  \* @type: Int;
  len,
  \* @type: Int -> Seq(Int);
  dict,
  \* candidate positions returned by the last prepare
  \* @type: Set(Int);
  cand

ConstInit == GRAMS = {1, 2, 3} /\ Variant = "fixed"
ConstInitPinned == GRAMS = {1, 2, 3} /\ Variant = "pinned"

Init == records = <<>> /\ nextIx = 0 /\ len = 0 /\ dict = [g \in GRAMS |-> <<>>] /\ cand = {}

\* Store::add (Record.ix := next_ix) + TrigramIndex::add
Add(gs) ==
  /\ records' = Append(records, gs)
  /\ nextIx' = nextIx + 1
  /\ len' = len + 1
  /\ dict' = [g \in GRAMS |-> IF g \in gs THEN Append(dict[g], nextIx) ELSE dict[g]]
  /\ cand' = {}

\* Store::clear
Clear ==
  /\ records' = <<>> /\ nextIx' = 0
  /\ IF Variant = "pinned" THEN UNCHANGED <<len, dict>>
     ELSE len' = 0 /\ dict' = [g \in GRAMS |-> <<>>]
  /\ cand' = {}

\* TrigramIndex::prepare: counters sized `len`, one increment per posting of a query gram; any subset of the touched positions
Prepare(qs) ==
  /\ \E S \in SUBSET (UNION { { dict[g][k] : k \in DOMAIN dict[g] } : g \in qs }) : cand' = S
  /\ UNCHANGED <<records, nextIx, len, dict>>

Next == (\E gs \in SUBSET GRAMS : Add(gs)) \/ Clear \/ (\E qs \in SUBSET GRAMS : Prepare(qs))

IndInv ==
  /\ nextIx = Len(records) /\ len = Len(records)
  /\ DOMAIN dict = GRAMS
  /\ \A i \in DOMAIN records : records[i] \subseteq GRAMS
  /\ \A g \in GRAMS : \A k \in DOMAIN dict[g] :
        /\ dict[g][k] >= 0 /\ dict[g][k] < len                 \* counter access in range (C19)
        /\ g \in records[dict[g][k] + 1]                        \* the record at that position has the gram
        /\ (k > 1 => dict[g][k - 1] < dict[g][k])               \* debug_assert of TrigramIndex::add
  /\ \A p \in cand : p >= 0 /\ p < Len(records)                 \* `records[ix]` in Store::search cannot be out of bounds

IndInit ==
  /\ records = Gen(4) /\ nextIx = Gen(1) /\ len = Gen(1) /\ dict = Gen(4) /\ cand = Gen(4)
  /\ IndInv
=============================================================================
