------------------------------ MODULE IndexInd ------------------------------
(* The trigram index machine (Trigram.tla: len, dict, IndexAdd) restated with        *)
(* Apalache type annotations, to discharge by induction - for an unbounded number    *)
(* of adds - the invariant behind C19's counter accesses and C18's "positions of     *)
(* existing records": every stored position is below `len` and posting lists are     *)
(* strictly increasing.  Grams are abstracted to a finite set of integers.           *)
EXTENDS Integers, Sequences, FiniteSets, Apalache

CONSTANT
  \* @type: Set(Int);
  GRAMS

VARIABLES
  \* @type: Int;
  len,
  \* @type: Int -> Seq(Int);
  dict

ConstInit == GRAMS = {1, 2, 3}

Init == len = 0 /\ dict = [g \in GRAMS |-> <<>>]

\* TrigramIndex::add for a record whose gram set is gs
Add(gs) ==
  /\ len' = len + 1
  /\ dict' = [g \in GRAMS |-> IF g \in gs THEN Append(dict[g], len) ELSE dict[g]]

Next == \E gs \in SUBSET GRAMS : Add(gs)

\* the inductive invariant
IndInv ==
  /\ len >= 0
  /\ DOMAIN dict = GRAMS
  /\ \A g \in GRAMS : \A k \in DOMAIN dict[g] :
        /\ dict[g][k] >= 0 /\ dict[g][k] < len
        /\ (k > 1 => dict[g][k - 1] < dict[g][k])

\* an arbitrary state (sequences of up to 4 positions per gram) satisfying the invariant
IndInit ==
  /\ len = Gen(1)
  /\ dict = Gen(4)
  /\ IndInv
=============================================================================
