---------------------------- MODULE LimitSortInd ----------------------------
(* The chunked top-k machine of utils/limitsort.rs (LimitSort.tla: Run) restated     *)
(* with Apalache type annotations, to discharge by induction - for an unbounded      *)
(* number of pushed items - the invariant behind C06's "the returned list is the     *)
(* best `limit` of everything that was offered": whatever has been cut away so far   *)
(* is no better than `Limit` items still held, and the buffer never reaches          *)
(* 2 * Limit items.  Keys are integers (smaller = better, ties allowed); items carry *)
(* the number of the push that brought them so that equal keys stay distinguishable. *)
(* The unstable sort + truncate is stated relationally: ANY choice of `Limit` items  *)
(* such that no item cut away is strictly better than a kept one.  The order inside  *)
(* the buffer is abstracted away (every later step sorts again).                     *)
EXTENDS Integers, Sequences, FiniteSets, Apalache

CONSTANT
  \* @type: Int;
  Limit

VARIABLES
  \* @type: Seq({k: Int, id: Int});
  buffer,
  \* @type: Set({k: Int, id: Int});
  dropped,
  \* @type: Int;
  n,
  \* @type: Bool;
  done

ConstInit == Limit \in 0..3

Init == buffer = <<>> /\ dropped = {} /\ n = 0 /\ done = FALSE

\* @type: Seq({k: Int, id: Int}) => Set({k: Int, id: Int});
Items(b) == { b[i] : i \in DOMAIN b }

\* sort_unstable_by + truncate(Limit) applied to b: keep is a set of Limit items (all of them when fewer), nothing cut is better
\* @type: (Seq({k: Int, id: Int}), Set({k: Int, id: Int})) => Bool;
IsCut(b, keep) ==
  /\ keep \subseteq Items(b)
  /\ Cardinality(keep) = (IF Len(b) < Limit THEN Len(b) ELSE Limit)
  /\ \A x \in keep : \A y \in Items(b) \ keep : x.k <= y.k

\* LimitSortIter::next, one turn of the `while let Some(item)` loop
Push(key) ==
  /\ ~done
  /\ LET b == Append(buffer, [k |-> key, id |-> n]) IN
     IF Len(b) >= 2 * Limit
       THEN \E keep \in SUBSET Items(b) :
              /\ IsCut(b, keep)
              /\ buffer' = SelectSeq(b, LAMBDA e : e \in keep)
              /\ dropped' = dropped \union (Items(b) \ keep)
       ELSE buffer' = b /\ dropped' = dropped
  /\ n' = n + 1
  /\ done' = FALSE

\* the final sort + truncate when the source is exhausted
Finish ==
  /\ ~done
  /\ \E keep \in SUBSET Items(buffer) :
       /\ IsCut(buffer, keep)
       /\ buffer' = SelectSeq(buffer, LAMBDA e : e \in keep)
       /\ dropped' = dropped \union (Items(buffer) \ keep)
  /\ n' = n
  /\ done' = TRUE

Stutter == done /\ UNCHANGED <<buffer, dropped, n, done>>

Next == (\E key \in 0..3 : Push(key)) \/ Finish \/ Stutter

Min2(a, b) == IF a < b THEN a ELSE b

\* the inductive invariant
IndInv ==
  /\ Limit >= 0 /\ n >= 0
  \* items are distinguishable and come from pushes 0..n-1; nothing is both held and cut
  /\ \A i, j \in DOMAIN buffer : i # j => buffer[i].id # buffer[j].id
  /\ \A e \in Items(buffer) \union dropped : e.id >= 0 /\ e.id < n
  /\ \A e \in Items(buffer) : \A d \in dropped : e.id # d.id
  /\ \A d1, d2 \in dropped : d1.id = d2.id => d1 = d2
  \* nothing is lost: held + cut = pushed
  /\ Len(buffer) + Cardinality(dropped) = n
  \* the buffer stays below the chunk size (and is empty for Limit = 0)
  /\ (Limit = 0 => Len(buffer) = 0)
  /\ (Limit > 0 => Len(buffer) < 2 * Limit)
  \* as soon as anything has been cut, at least Limit items are held ...
  /\ (dropped # {} => Len(buffer) >= Limit)
  \* ... and every cut item is no better than Limit of the held ones
  /\ \A d \in dropped : Cardinality({ e \in Items(buffer) : e.k <= d.k }) >= Limit
  \* at the end: exactly min(Limit, n) items, none worse than a cut one  (IsTopK of LimitSort.tla on keys)
  /\ (done => /\ Len(buffer) = Min2(Limit, n)
              /\ \A e \in Items(buffer) : \A d \in dropped : e.k <= d.k)

\* an arbitrary state (up to 5 held and 4 cut items) satisfying the invariant
IndInit ==
  /\ buffer = Gen(5)
  /\ dropped = Gen(4)
  /\ n = Gen(1)
  /\ done \in BOOLEAN
  /\ IndInv
=============================================================================
