--------------------------- MODULE StoreCacheInd ---------------------------
(* The top-rated cache of the Store object (StoreOps.tla: S_Add, S_Clear,            *)
(* S_SetLimit, TopIxsOutcomes, CacheUsable, S_AfterSearch) restated with Apalache    *)
(* type annotations, to discharge by induction - for histories of ANY length - the   *)
(* invariant behind C10 and C12 for the empty query: whenever the cache is usable it *)
(* is a list of the `limit` top-rated positions of the records held NOW, so the      *)
(* answer to the empty query is never stale.  Records are abstracted to their        *)
(* ratings (position = ix); the order inside the cached list is abstracted away      *)
(* (the final selection sorts the positions again); rating ties are allowed and any  *)
(* choice among them is admitted, as in LimitSort.tla.                               *)
(* Variant = "pinned" is the behaviour of the pinned commit (cache never dropped,    *)
(* not keyed by the limit): Apalache refutes the invariant for it (self-test).       *)
EXTENDS Integers, Sequences, FiniteSets, Apalache

CONSTANT
  \* @type: Str;
  Variant

VARIABLES
  \* @type: Seq(Int);
  records,
  \* @type: Int;
  limit,
  \* @type: {set: Bool, limit: Int, ixs: Set(Int)};
  cache,
  \* @type: Set(Int);
  res,
  \* @type: Bool;
  answered

ConstInit == Variant = "fixed"
ConstInitPinned == Variant = "pinned"

NoCache == [set |-> FALSE, limit |-> 0, ixs |-> {}]

Init == records = <<>> /\ limit = 10 /\ cache = NoCache /\ res = {} /\ answered = FALSE

\* S is a set of the `lim` top-rated positions (1-based here) of recs
\* @type: (Set(Int), Seq(Int), Int) => Bool;
IsTop(S, recs, lim) ==
  /\ S \subseteq DOMAIN recs
  /\ Cardinality(S) = (IF Len(recs) < lim THEN Len(recs) ELSE lim)
  /\ \A p \in DOMAIN recs : p \notin S => \A q \in S : recs[p] <= recs[q]

\* Store::add
Add(rating) ==
  /\ records' = Append(records, rating)
  /\ cache' = IF Variant = "pinned" THEN cache ELSE NoCache
  /\ UNCHANGED limit /\ answered' = FALSE /\ res' = {}

\* Store::clear
Clear ==
  /\ records' = <<>>
  /\ cache' = IF Variant = "pinned" THEN cache ELSE NoCache
  /\ UNCHANGED limit /\ answered' = FALSE /\ res' = {}

\* store.limit = n
SetLimit(n) ==
  /\ limit' = n
  /\ UNCHANGED <<records, cache>> /\ answered' = FALSE /\ res' = {}

CacheUsable == cache.set /\ (Variant = "pinned" \/ cache.limit = limit)

\* Store::search("") as far as the candidate positions go: Store::top_ixs
SearchEmpty ==
  /\ IF CacheUsable
       THEN res' = cache.ixs /\ UNCHANGED cache
       ELSE \E S \in SUBSET (DOMAIN records) :
              /\ IsTop(S, records, limit)
              /\ res' = S
              /\ cache' = IF Variant = "pinned" /\ cache.set THEN cache ELSE [set |-> TRUE, limit |-> limit, ixs |-> S]
  /\ UNCHANGED <<records, limit>> /\ answered' = TRUE

\* a search with words does not touch the cache
SearchWords == UNCHANGED <<records, limit, cache>> /\ answered' = FALSE /\ res' = {}

Next == (\E r \in 0..2 : Add(r)) \/ Clear \/ (\E n \in 0..5 : SetLimit(n)) \/ SearchEmpty \/ SearchWords

\* the inductive invariant: a cache is a top list of the PRESENT records for the limit it was computed with (whether or not
\* that is the present limit - "a usable cache is fresh" alone is not inductive: SetLimit can make a dormant cache usable
\* again), and what the empty query just answered is a top list of the present state
IndInv ==
  /\ limit >= 0
  /\ (cache.set => cache.limit >= 0 /\ IsTop(cache.ixs, records, cache.limit))
  /\ (CacheUsable => IsTop(cache.ixs, records, limit))
  /\ (answered => IsTop(res, records, limit))

\* an arbitrary state (up to 4 records) satisfying the invariant
IndInit ==
  /\ records = Gen(4)
  /\ limit = Gen(1)
  /\ cache = Gen(4)
  /\ res = Gen(4)
  /\ answered \in BOOLEAN
  /\ IndInv
=============================================================================
