----------------------------- MODULE MatrixInd -----------------------------
(* The reusable distance matrix of matching/damlev (DamLev.tla: DLStep, the part    *)
(* that concerns its dimension) restated with Apalache type annotations, to          *)
(* discharge by induction - for ANY sequence of calls with words of ANY length -     *)
(* C19's obligation on the matrix: every row and column touched by                   *)
(* `DistMatrix::prepare`, `DistMatrix::init` and the DP of `distance` is below the   *)
(* present dimension, the flat offset row * size + column is below the buffer        *)
(* length.                                                                            *)
(* Only the dimension is state; cell contents are the business of DamLev.tla.       *)
EXTENDS Integers, Apalache

VARIABLES
  \* @type: Int;
  size,
  \* @type: Int;
  rawLen,
  \* the extreme indices touched by the last call (0 when nothing was touched)
  \* @type: Int;
  maxRow,
  \* @type: Int;
  maxCol

Max2(a, b) == IF a > b THEN a ELSE b

Init == size = 20 /\ rawLen = 400 /\ maxRow = 0 /\ maxCol = 0

\* DamerauLevenshtein::distance on words of n1 and n2 characters:
\*   prepare: grow to 1.5 x when max(n1, n2) + 2 > size (then init touches 0..size-1 in both directions),
\*            border cells (i1 + 2, 1) for i1 < n1 and (1, i2 + 2) for i2 < n2;
\*   DP: reads (i1 + 2, i2 + 1), (i1 + 1, i2 + 2), (i1 + 1, i2 + 1), (l1, l2) with l1 <= i1, l2 <= i2; writes (i1 + 2, i2 + 2);
\*   result cell (n1 + 1, n2 + 1).
Distance(n1, n2) ==
  LET need  == Max2(n1, n2) + 2
      grown == need > size
      size2 == IF grown THEN need + need \div 2 ELSE size
  IN /\ size' = size2
     /\ rawLen' = IF grown THEN size2 * size2 ELSE rawLen
     /\ maxRow' = Max2(IF grown THEN size2 - 1 ELSE 0, n1 + 1)       \* i1 + 2 for i1 = n1 - 1, and the result cell
     /\ maxCol' = Max2(IF grown THEN size2 - 1 ELSE 0, n2 + 1)

Next == \E n1 \in Nat : \E n2 \in Nat : Distance(n1, n2)

IndInv ==
  /\ size >= 20
  /\ rawLen = size * size
  /\ maxRow >= 0 /\ maxCol >= 0
  /\ maxRow < size /\ maxCol < size                     \* inside the dimension (what the access recorder checks per call)
  /\ maxRow * size + maxCol < rawLen                    \* inside the flat buffer (memory safety proper)

IndInit ==
  /\ size = Gen(1) /\ rawLen = Gen(1) /\ maxRow = Gen(1) /\ maxCol = Gen(1)
  /\ IndInv
=============================================================================
