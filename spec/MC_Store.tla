------------------------------ MODULE MC_Store ------------------------------
(* L1 for the Store machine with a small abstract matcher: a title is a sequence   *)
(* of letters, every letter is a one-character word, a query matches a record iff  *)
(* they share a letter; the score is (shared letters, rating, shorter title).      *)
(* Checks C10 (no stale state), C01 (no out-of-range position), C06/C12 shapes on  *)
(* every reachable state of every history up to MaxSteps calls.                    *)
EXTENDS Store

CONSTANTS MaxSteps, Titles, Ratings, Limits, Queries

MTok(title) == [chars |-> title, words |-> [i \in DOMAIN title |-> [s |-> i - 1, e |-> i]]]

MEval(rec, q, l, r) ==
  LET t      == rec.title
      shared == Cardinality(SeqRange(t) \cap SeqRange(q))
  IN [pass  |-> (q = <<>>) \/ shared > 0,
      key   |-> <<-shared, -rec.rating, Len(t)>>,
      title |-> Flatten([i \in DOMAIN t |-> IF t[i] \in SeqRange(q) THEN l \o <<t[i]>> \o r ELSE <<t[i]>>])]
MQWords(q) == Len(q)
MQGrams(q) == { <<q[i], 0, 0>> : i \in DOMAIN q }

MTitles  == { <<1>>, <<2>>, <<1, 2>> }
MQueries == { <<>>, <<1>>, <<2, 1>> }

VARIABLE steps
vars == <<store, steps>>

Init == InitStore /\ steps = 0
Next ==
  /\ steps < MaxSteps
  /\ steps' = steps + 1
  /\ \/ \E t \in Titles, rt \in Ratings : Add(store.nextIx + 1, t, rt, MTok(t))
     \/ Clear
     \/ \E n \in Limits : SetLimit(n)
     \/ SetMarkers(<<40>>, <<41>>)
     \/ \E res \in S_SearchOutcomes(store, <<>>) : Search(<<>>, res)     \* the only search that changes state
Spec == Init /\ [][Next]_vars

C10NoStale  == \A q \in Queries : NoStaleState(store, q)
C01NoPanic  == \A q \in Queries : NoPanic(store, q)
Consistent  == IndexConsistent(store)
\* C06: never more than `limit` hits, no record twice; the complete list when the store is small
C06Shape    == \A q \in Queries : \A o \in Outs(store, q) : ~o.panic =>
                  /\ Len(o.hits) <= store.limit
                  /\ NoDup([i \in DOMAIN o.hits |-> o.hits[i].id])
                  /\ (Len(store.records) <= CapFactor * store.limit => o \in IdealOutcomes(store, q))
\* C12: the empty query lists min(limit, n) records, best ratings first, none better left out
C12Shape    == \A o \in Outs(store, <<>>) : ~o.panic =>
                  LET rating(id) == (CHOOSE rec \in SeqRange(store.records) : rec.id = id).rating
                      h == o.hits IN
                  /\ Len(h) = Min2(store.limit, Len(store.records))
                  /\ \A i \in 1..(Len(h) - 1) : rating(h[i].id) >= rating(h[i + 1].id)
                  /\ \A rec \in SeqRange(store.records) : (\A i \in DOMAIN h : h[i].id # rec.id) =>
                        \A i \in DOMAIN h : rating(h[i].id) >= rec.rating
\* C07 on the design: with pairwise distinct score keys and at most CapFactor x limit records, the answer does not depend on
\* the order in which the records were added
DistinctEvalKeys(q) == LET ks == [i \in DOMAIN store.records |-> MEval(store.records[i], q, <<>>, <<>>).key] IN NoDup(ks)
C07Perm == \A q \in Queries :
             (DistinctEvalKeys(q) /\ Len(store.records) <= CapFactor * store.limit) =>
               \A p \in Permutations(DOMAIN store.records) :
                  Outs(Rebuilt([store EXCEPT !.records = [i \in DOMAIN store.records |-> store.records[p[i]]]]), q) = Outs(Rebuilt(store), q)
=============================================================================
