---------------------------- MODULE MC_TextMatch ----------------------------
(* L1 for the text-level statements on the full matcher/scorer/highlighter pipeline *)
(* (TextMatch.tla, Score.tla, Highlight.tla) over one- to three-word model titles:  *)
(*   C13  the whole title, and its first and last words in either order, match;     *)
(*   C14  a word typed as two words, two adjacent words typed as one, match;        *)
(*   C09  highlight spans are non-empty, start at a word start and end in the word; *)
(*   C05  no span is longer than the typed stretch plus one;                        *)
(*   C01  no unsigned subtraction of the matcher underflows (ArithSafe).            *)
(* Stems are the words' own lengths here (the stemmer-dependent part of the matcher *)
(* is explored at word level by MC_WordMatch with every stem).                      *)
EXTENDS Score
CONSTANTS NSym, MaxWord, Mode      \* Mode \in {"whole", "split", "joined", "arith"}

ClassOfSym(x) == CASE x = 1 -> "V" [] x = 2 -> "C" [] x = 3 -> "C" [] x = 4 -> "A" [] OTHER -> "N"
SEP == 32
\* a text made of words separated by `gaps[i]` separators; isQuery: the last word is unfinished
MkText(ws, gaps, isQuery) ==
  LET RECURSIVE Build(_, _, _, _)
      Build(i, chars, words, pos) ==
        IF i > Len(ws) THEN [chars |-> chars, words |-> words]
        ELSE LET g == IF i = 1 THEN 0 ELSE gaps[i - 1]
                 s == pos + g
                 e == s + Len(ws[i])
             IN Build(i + 1, chars \o [k \in 1..g |-> SEP] \o ws[i],
                      Append(words, [offset |-> i - 1, s |-> s, e |-> e, stem |-> Len(ws[i]),
                                     fin |-> ~(isQuery /\ i = Len(ws)), func |-> FALSE]), e)
      b == Build(1, <<>>, <<>>, 0)
  IN [chars |-> b.chars, source |-> b.chars, words |-> b.words,
      classes |-> [k \in DOMAIN b.chars |-> IF b.chars[k] = SEP THEN "N" ELSE ClassOfSym(b.chars[k])]]

Words(lo, hi) == UNION { [1..n -> 1..NSym] : n \in lo..hi }

VARIABLES stage, title, gaps, query
vars == <<stage, title, gaps, query>>
Init == stage = 0 /\ title = <<>> /\ gaps = <<>> /\ query = <<>>
Next ==
  \/ /\ stage = 0 /\ stage' = 1 /\ query' = <<>>
     /\ \E n \in 1..(IF Mode \in {"joined", "arith"} THEN 2 ELSE 3) :
          /\ title' \in [1..n -> Words(1, MaxWord)]
          /\ gaps' \in [1..(n - 1) -> 1..2]
  \/ /\ stage = 1 /\ stage' = 2 /\ UNCHANGED <<title, gaps>>
     /\ query' \in
          CASE Mode = "whole"  -> { [ws |-> title, gaps |-> gaps] }
                                   \cup (IF Len(title) >= 2 THEN { [ws |-> <<title[1], Last(title)>>, gaps |-> <<1>>],
                                                                    [ws |-> <<Last(title), title[1]>>, gaps |-> <<1>>] } ELSE {})
            [] Mode = "split"  -> UNION { { [ws |-> <<SubSeq(title[i], 1, k), SubSeq(title[i], k + 1, Len(title[i]))>>, gaps |-> <<1>>]
                                            : k \in 1..(Len(title[i]) - 1) } : i \in { j \in DOMAIN title : Len(title[j]) >= 3 } }
            [] Mode = "joined" -> { [ws |-> <<title[i] \o title[i + 1]>>, gaps |-> <<>>]
                                    : i \in { j \in 1..(Len(title) - 1) : gaps[j] = 1 /\ Len(title[j]) + Len(title[j + 1]) >= 3 } }
            [] OTHER           -> { [ws |-> <<w>>, gaps |-> <<>>] : w \in Words(2, MaxWord + 2) }
Spec == Init /\ [][Next]_vars

RT == MkText(title, gaps, FALSE)
QT == MkText(query.ws, query.gaps, TRUE)
EV == EvalRecord(RT, 0, QT, <<SL>>, <<SR>>)

Found     == (stage = 2 /\ Mode # "arith") => EV.pass
ArithSafe == stage = 2 => EV.safe /\ ScoreCharsSafeUnsigned(EV.tm.rm) = ScoreCharsSafeUnsigned(EV.tm.rm)
\* the signed sum of the repaired score_chars_up never needs the wrap-around of the pinned code... unless:
PinnedScoreSafe == stage = 2 => ScoreCharsSafeUnsigned(EV.tm.rm)
Markup    == stage = 2 =>
               LET p == ParseHL(EV.title) IN
               /\ p.ok /\ p.plain = StripNul(RT.source)
               /\ \A k \in DOMAIN p.spans :
                    /\ p.spans[k].b > p.spans[k].a
                    /\ \E i \in DOMAIN RT.words : RT.words[i].s = p.spans[k].a /\ p.spans[k].b <= RT.words[i].e
                    /\ (p.spans[k].b - p.spans[k].a) <= (Last(QT.words).e - QT.words[1].s) + 1
               /\ (EV.pass => Len(p.spans) >= 1)
=============================================================================
