------------------------------ MODULE Tokenize ------------------------------
(* tokenization/*.rs, lang/lang.rs, lang/normalize.rs: from a string to a           *)
(* tokenised text  [source, chars, classes, words].                                 *)
(*                                                                                  *)
(*   compose -> reduce (+ NUL padding of `source`) -> [query: last word unfinished] *)
(*   -> split on white space / control / punctuation -> strip non-alphanumerics     *)
(*   -> lower-case -> part of speech -> character classes -> stem                   *)
(*                                                                                  *)
(* Facts about single characters (Rust's Unicode tables and the crate's punctuation *)
(* list) are the operator parameter CI; the Snowball stemmer is an oracle and is    *)
(* not specified: words come out of this module without a stem.                     *)
EXTENDS Langs

CONSTANT CI(_)      \* code point -> [alnum, alpha, white, ctrl, punct, upper, lower]

IsSep(c)   == CI(c).white \/ CI(c).ctrl \/ CI(c).punct      \* the split pattern
IsAlnum(c) == CI(c).alnum

----------------------------------------------------------------------------
(* lang/normalize.rs: windows of at most two characters; the longest pattern that   *)
(* is a key of the map wins, its characters are consumed; other characters map to   *)
(* themselves.  Result: the sequence of chunks <<pattern, replacement>>.            *)
RECURSIVE NormChunks(_, _, _)
NormChunks(map, s, i) ==
  IF i > Len(s) THEN <<>>
  ELSE IF i + 1 <= Len(s) /\ <<s[i], s[i + 1]>> \in DOMAIN map
         THEN <<[pat |-> <<s[i], s[i + 1]>>, rep |-> map[<<s[i], s[i + 1]>>]]>> \o NormChunks(map, s, i + 2)
  ELSE IF <<s[i]>> \in DOMAIN map
         THEN <<[pat |-> <<s[i]>>, rep |-> map[<<s[i]>>]]>> \o NormChunks(map, s, i + 1)
  ELSE <<[pat |-> <<s[i]>>, rep |-> <<s[i]>>]>> \o NormChunks(map, s, i + 1)

\* Lang::unicode_compose (the composed string; the code returns None when nothing changed)
ComposeSeq(lang, s) ==
  LET ch == NormChunks(ComposeOf(lang), s, 1) IN Flatten([i \in DOMAIN ch |-> ch[i].rep])

\* Lang::unicode_reduce: the original padded with NUL to the length of the replacement, and the replacement.
\* `norm_chunk.len() - word_chunk.len()` is unsigned: a reduction must never shrink (C01 obligation).
ReduceChunks(lang, s) == NormChunks(ReduceOf(lang), s, 1)
ReduceSafe(lang, s)   == \A c \in SeqRange(ReduceChunks(lang, s)) : NoUnderflow(Len(c.rep), Len(c.pat))
Pad(n) == [i \in 1..n |-> 0]
ReducePair(lang, s) ==
  LET ch == ReduceChunks(lang, s) IN
  [source |-> Flatten([i \in DOMAIN ch |-> ch[i].pat \o Pad(Len(ch[i].rep) - Len(ch[i].pat))]),
   chars  |-> Flatten([i \in DOMAIN ch |-> ch[i].rep])]

\* Text::normalize
Normalize(lang, s) ==
  LET c  == ComposeSeq(lang, s)
      rp == ReducePair(lang, c)
  IN IF rp.chars = c THEN [source |-> c, chars |-> c] ELSE rp

----------------------------------------------------------------------------
(* WordSplit: maximal runs of non-separator characters of chars[1..n]; a run is     *)
(* finished iff the text is a record, or any character at all follows it.           *)
RECURSIVE SplitFrom(_, _, _, _)
SplitFrom(chars, i, fin0, acc) ==        \* i: 1-based position to continue from
  LET n == Len(chars)
      RECURSIVE SkipSep(_), RunEnd(_)
      SkipSep(j) == IF j <= n /\ IsSep(chars[j]) THEN SkipSep(j + 1) ELSE j
      RunEnd(j)  == IF j <= n /\ ~IsSep(chars[j]) THEN RunEnd(j + 1) ELSE j
  IN IF i > n THEN acc
     ELSE LET a == SkipSep(i)
              b == RunEnd(a)             \* run is chars[a..b-1]
          IN IF b = a THEN acc
             ELSE SplitFrom(chars, b, fin0,
                            Append(acc, [s |-> a - 1, e |-> b - 1, fin |-> fin0 \/ (b - 1 < n)]))

\* WordShape::strip with the pattern NotAlphaNum, then dropping emptied words
StripWord(chars, w) ==
  LET RECURSIVE Lead(_), Trail(_)
      Lead(j)  == IF j < w.e /\ ~IsAlnum(chars[j + 1]) THEN Lead(j + 1) ELSE j          \* 0-based
      left     == Lead(w.s) - w.s
      Trail(j) == IF j > w.s + left /\ ~IsAlnum(chars[j]) THEN Trail(j - 1) ELSE j     \* exclusive end
      right    == w.e - Trail(w.e)
  IN [s |-> w.s + left, e |-> w.e - right, fin |-> w.fin \/ right # 0]

\* Text::lower: only if some character is upper case; each character becomes the first
\* character of its lower-case mapping
Lower(chars) ==
  IF \E i \in DOMAIN chars : CI(chars[i]).upper
    THEN [i \in DOMAIN chars |-> CI(chars[i]).lower]
    ELSE chars

\* Lang::add_pos / get_pos: a word is a function word iff its characters equal the composed
\* spelling of a listed word or the reduced spelling of that
FunctionKeys(lang) ==
  LET composed == { ComposeSeq(lang, w) : w \in FunctionWordsOf(lang) }
  IN composed \cup { ReducePair(lang, w).chars : w \in composed }
FunctionKeysTab == [lang \in LangCodes |-> FunctionKeys(lang)]      \* evaluated once by TLC
IsFunctionWord(lang, w) == w \in FunctionKeysTab[lang]

\* Text::set_char_classes
ClassOf(lang, c) ==
  IF c \in DOMAIN ClassesOf(lang) THEN ClassesOf(lang)[c]
  ELSE IF ~CI(c).alpha THEN "N" ELSE "A"

\* tokenize_record / tokenize_query (isQuery) without the stems
Tokenize(lang, text, isQuery) ==
  LET nm      == Normalize(lang, text)
      split   == SplitFrom(nm.chars, 1, ~isQuery, <<>>)
      strip   == [i \in DOMAIN split |-> StripWord(nm.chars, split[i])]
      kept    == SelectSeq(strip, LAMBDA w : w.e > w.s)
      lowered == Lower(nm.chars)
      words   == [i \in DOMAIN kept |->
                    [offset |-> i - 1, s |-> kept[i].s, e |-> kept[i].e, fin |-> kept[i].fin,
                     func |-> IsFunctionWord(lang, SubSeq(lowered, kept[i].s + 1, kept[i].e))]]
  IN [source  |-> nm.source,
      chars   |-> lowered,
      classes |-> [i \in DOMAIN lowered |-> ClassOf(lang, lowered[i])],
      words   |-> words]

----------------------------------------------------------------------------
(* C15: well-formedness of a tokenised text (applies to what the code returned and  *)
(* to what this module computes).  `tok` has words with fields s, e, stem, fin.     *)
StripNUL(s) == SelectSeq(s, LAMBDA c : c # 0)
UpperCase(c) == CI(c).upper /\ CI(c).lower # c

WellFormed(tok, isQuery) ==
  LET n == Len(tok.chars)  W == tok.words IN
  /\ Len(tok.source) = n /\ Len(tok.classes) = n
  /\ \A i \in DOMAIN W :
       /\ W[i].offset = i - 1
       /\ 0 <= W[i].s /\ W[i].s < W[i].e /\ W[i].e <= n
       /\ (i > 1 => W[i - 1].e <= W[i].s)
       /\ IsAlnum(tok.chars[W[i].s + 1]) /\ IsAlnum(tok.chars[W[i].e])
       /\ \A k \in (W[i].s + 1)..W[i].e : ~IsSep(tok.chars[k]) /\ ~UpperCase(tok.chars[k])
       /\ 1 <= W[i].stem /\ W[i].stem <= W[i].e - W[i].s
  /\ \A k \in 1..n : IsAlnum(tok.chars[k]) =>
        Cardinality({ i \in DOMAIN W : W[i].s < k /\ k <= W[i].e }) = 1
  /\ IF isQuery
       THEN \A i \in DOMAIN W : W[i].fin <=> ~(i = Len(W) /\ W[i].e = n)
       ELSE \A i \in DOMAIN W : W[i].fin
=============================================================================
