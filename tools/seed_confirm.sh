#!/bin/bash
# usage: seed_confirm.sh <worktree> <variant A|B>
# Confirms in the scratch worktree: with the change the repository's suite still passes (219 + the 3 known failures)
# and the demonstration fails; without it the demonstration passes.
set -u
WT=$1; V=$2
cd $WT || exit 2
git checkout -q -- . ; rm -f rust/core/tests/seed_demo.rs
git apply --check SEED/$V.diff || { echo "PATCH DOES NOT APPLY"; exit 2; }
cp SEED/${V}_demo.rs rust/core/tests/seed_demo.rs
export CARGO_TARGET_DIR=$WT/target CARGO_NET_OFFLINE=true
cd rust/core
echo "== without change: demo"
cargo test --offline --test seed_demo 2>&1 | grep -E "^test result|panicked|error" | head -5
git -C $WT apply SEED/$V.diff
echo "== with change: suite"
cargo test --workspace --no-fail-fast --offline 2>&1 | grep -E "^test result|^test .* FAILED" | head -20
git -C $WT checkout -q -- . ; rm -f $WT/rust/core/tests/seed_demo.rs
find $WT -name "*.snap.new" -newer $WT/SEED/$V.diff -delete 2>/dev/null
