#!/usr/bin/env python3
"""Provenance tool (NOT run by any check): transcribes the language tables of the pinned
lucid-suggest sources into /verif/langs.json, the single source for spec/Langs.tla and for the
generators' alphabets.  The tables are cross-checked against python's unicodedata (NFC/NFD).
Usage: python3 tools/extract_langs.py /repo/rust/core/src/lang > langs.json"""
import json, re, sys, unicodedata

src = sys.argv[1]
MODS = {"de": "lang_german.rs", "en": "lang_english.rs", "es": "lang_spanish.rs",
        "fr": "lang_french.rs", "pt": "lang_portuguese.rs", "ru": "lang_russian.rs"}

def const_block(text, name):
    m = re.search(r"const %s:[^=]*=\s*&\[(.*?)\n\];" % name, text, re.S)
    if not m:
        m = re.search(r"const %s:[^=]*=\s*&\[(.*?)\];" % name, text, re.S)
    body = m.group(1)
    body = "\n".join(l for l in body.split("\n") if not l.strip().startswith("//"))
    return body

def pairs_str(body):
    return [(a, b) for a, b in re.findall(r'\(\s*"((?:[^"\\]|\\.)*)"\s*,\s*"((?:[^"\\]|\\.)*)"\s*\)', body)]

def cps(s):
    return [ord(c) for c in s]

latin = open(src + "/constants.rs", encoding="utf-8").read()
latin_cls = re.findall(r"\((Consonant|Vowel),\s*'(.)'\)", const_block(latin, "CHAR_CLASSES_LATIN"))

out = {"none": {"classes": [], "compose": [], "reduce": [], "function_words": [], "stemmer": False}}
for code, fn in MODS.items():
    text = open(src + "/" + fn, encoding="utf-8").read()
    fw = re.findall(r'\((Article|Preposition|Conjunction|Particle)\s*,\s*"([^"]*)"\)', const_block(text, "FUNCTION_WORDS"))
    cls = re.findall(r"\((?:CharClass::)?(Consonant|Vowel),\s*'(.)'\)", const_block(text, "CHAR_CLASSES"))
    comp = pairs_str(const_block(text, "UTF_COMPOSE_MAP"))
    red = pairs_str(const_block(text, "UTF_REDUCE_MAP"))
    for a, b in comp:
        assert unicodedata.normalize("NFC", a) == b and len(b) == 1 and len(a) == 2, (code, a, b)
    for a, b in red:
        assert len(a) == 1 and 1 <= len(b) <= 2, (code, a, b)
    classes = {}
    for k, ch in latin_cls + cls:      # later entries win, as in add_char_class
        classes[ord(ch)] = k[0]
    words = []
    seen = set()
    for pos, w in fw:
        if w not in seen:
            seen.add(w)
            words.append({"pos": pos, "w": cps(w)})
    out[code] = {
        "classes": [[c, k] for c, k in sorted(classes.items())],
        "compose": [[cps(a), cps(b)] for a, b in comp],
        "reduce": [[cps(a), cps(b)] for a, b in red],
        "function_words": words,
        "stemmer": True,
    }
json.dump(out, sys.stdout, ensure_ascii=True, indent=0, sort_keys=True)
