#!/usr/bin/env python3
"""Writes MANIFEST.json from the table below (kept next to the code so that the two stay in step)."""
import json, os, subprocess
V = os.path.dirname(os.path.dirname(os.path.abspath(__file__)))
hooks = subprocess.run(["git", "-C", "/repo", "log", "--format=%H %s"], stdout=subprocess.PIPE, text=True).stdout.splitlines()
hook_commits = [l.split()[0] for l in hooks if "verif hook" in l]

TRUST = ("TLC 1.8 + CommunityModules; rustc/cargo and the standard library's run-time checks; Rust's Unicode tables; rust-stemmers "
         "(only 1 <= stem <= len and determinism are required of it); langs.json as the statement of each language's inventory; the harness "
         "copying inputs/outputs of the crate into the trace (binding self-test: python3 run.py selftest)")

P = {
 "C01": ("TLC evaluates `no panic / checked build = shipping build` on traces of the real crate (two builds of the same harness) driven by adversarial-Unicode histories and by boundary cases derived from the specification's arithmetic obligations; TLC checks those obligations (ArithSafe, NoPanic) on the bounded pipeline and Store models",
         "TLA+ model checking (TLC) of arithmetic/indexing obligations + trace validation of checked and shipping builds", "5 C01"),
 "C02": ("TLC parses every returned title recorded with sentinel markers, compares it with the stored title modulo the language's composition table (spec/Langs.tla), and recomputes the output for other marker pairs (InsertMarkers); highlight.rs is specified in Highlight.tla",
         "trace validation with TLC: Highlight.tla parse/insert reference on recorded hits", "5 C02"),
 "C03": ("TLC re-establishes on the trace that each query is a prefix of a word of the public tokenisation of a record in a store no larger than its limit and checks the record is among the recorded hits; the word-level statement is model-checked on WordMatch.tla",
         "TLC: bounded model checking of the matcher gates + trace validation of generated prefix cases", "5 C03"),
 "C04": ("TLC checks IsOneEdit(word, query) and the other domain conditions itself and then membership of the record in the hits; the conjunction of the four gates is model-checked exhaustively for short words",
         "TLC: bounded model checking of WordMatch.tla + trace validation of generated edit cases", "5 C04"),
 "C05": ("TLC recomputes gram sets from the recorded public tokenisation (Trigram.tla) for every hit, bounds every span by the typed stretch, and checks the exact-prefix clause on one-word titles",
         "trace validation with TLC: Trigram.tla gram oracle + span arithmetic", "5 C05"),
 "C06": ("LimitSort.tla (chunked selection refines top-k, model-checked for all inputs in the bound and all unstable-sort outcomes); on traces TLC compares each hit with the verdict of its singleton store and the hit list with the unlimited list",
         "TLC: model checking LimitSort/Store machines + trace validation with singleton/unlimited stores", "5 C06"),
 "C07": ("TLC compares the order of recorded hits with the recorded two-record stores (both insertion orders) and with permuted insertion orders",
         "trace validation with TLC of pair and permutation stores", "5 C07"),
 "C08": ("TLC re-derives each scenario's domain (titles built from u, v, x over disjoint alphabets, function-word tables of Langs.tla) and checks the documented order on the recorded hits for every rating assignment and insertion order",
         "trace validation with TLC of generated ranking scenarios", "5 C08"),
 "C09": ("TLC parses the sentinel markup of every recorded hit and compares span positions with the public tokenisation recorded when the record was added",
         "trace validation with TLC: Highlight.tla ParseHL + tokenisation", "5 C09"),
 "C10": ("Store machine (StoreOps.tla) model-checked over all histories in the bound: every search outcome is an outcome of the rebuilt store; on traces the specification tracks the store state itself, verifies the harness rebuilt the fresh store from exactly that state, and compares answers; cache/index projections are conformance-checked",
         "TLC: model checking the Store state machine + trace validation of random histories against it", "5 C10"),
 "C11": ("TLC recomputes each query variant from the base query with the case mappings of the recorded chartable and the composition/reduction tables of Langs.tla, then compares hit lists; stores with decomposed titles are compared with their precomposed twins",
         "trace validation with TLC against Langs.tla tables", "5 C11"),
 "C12": ("Store machine model-checked (C12Shape); on traces TLC checks count, monotone ratings, omitted-not-better with the title tie rule, no highlighting, currency after adds",
         "TLC: model checking the Store machine + trace validation", "5 C12"),
 "C13": ("TLC checks the domain (whole title / first and last words of the public tokenisation, store within limit) and membership of the record in the recorded hits",
         "trace validation with TLC of generated cases", "5 C13"),
 "C14": ("TLC checks the domain (split at one separator; adjacent words one separator apart, stem of the joined word equal to its length as recorded) and membership in the hits",
         "trace validation with TLC of generated cases", "5 C14"),
 "C15": ("Tokenize.tla re-computes both tokenisers (compose, reduce with padding, split, strip, lower, classes, function words) for every recorded input and the result is compared field by field (stems excepted: oracle); TLC evaluates the well-formedness clauses (WellFormed) and the composed-input clause on what the code returned, for all short strings over an adversarial alphabet per language and random Unicode",
         "TLC trace validation against Tokenize.tla (executable specification of the tokeniser) + WellFormed predicate", "5 C15"),
 "C16": ("DamLev.tla: the persistent matrix machine is model-checked (history independence, prefix cells, laws against reference Lev / unrestricted DL) for all word pairs and call sequences in the bound; recorded distances and prefix cells of the real component (guarded hook) are compared with the specification's table and the laws are evaluated on them, with memo variables for symmetry/history independence",
         "TLC model checking of the distance-matrix machine + trace validation of the hooked component", "5 C16"),
 "C17": ("Jaccard.tla buffer machine model-checked against set similarity for all pairs and call sequences in the bound; recorded similarities (bit-exact fractions) compared with TLC's own set operators, symmetric and memo-consistent",
         "TLC model checking of the buffer machine + trace validation of the hooked component", "5 C17"),
 "C18": ("Trigram.tla index machine; on traces TLC recomputes gram sets and shared-gram counts from the recorded public tokenisation and checks every clause of the statement, and that the list is an outcome of the specification's index (L2)",
         "TLC trace validation against Trigram.tla gram oracle and index machine", "5 C18"),
 "C19": ("the matrix, buffer and index machines carry the set of accessed (row, col, size) / (index, length) and TLC checks them in range for all histories in the bound (growth at capacity 1); the guarded access recorder reports per-site extents of the real code for component calls and full searches, checked by TLC; an out-of-range access is turned into a recorded panic before memory is touched",
         "TLC model checking of access sets + trace validation of hook-recorded extents (observation, not proof)", "5 C19"),
 "C20": ("Registry.tla machine model-checked (frame condition, last result, fresh start) over two ids; on traces of the real top-level API every live buffer is read after every call and compared with the specification's registry state, and after run_search with a stand-alone Store driven in lock-step whose state TLC verifies to match",
         "TLC model checking of the registry machine + trace validation of interleaved API histories", "5 C20"),
}

checks = []
for pid in sorted(P):
    text, tech, ref = P[pid]
    checks.append({
        "property_id": pid,
        "quick_cmd": "python3 run.py %s --tier quick" % pid,
        "thorough_cmd": "python3 run.py %s --tier thorough" % pid,
        "evidence_file": "/verif/evidence/%s.json" % pid,
        "replay_cmd_template": "python3 run.py replay {path}",
        "engine": "tla-tlc-trace-validation",
        "level_claimed": {"category": "model_checking", "text": text, "design_ref": "DESIGN.md section " + ref},
        "level_note": TRUST,
        "technique": tech,
    })
NA = {
}
for pid in ["C%02d" % i for i in range(1, 21)]:
    if pid not in P and pid not in NA:
        NA[pid] = "check under construction in this round (specification and harness support exist in part); not claimed until it runs clean"
m = {
 "version": 1,
 "setup_cmd": "python3 run.py setup",
 "hooks": {"guard": "lucid_suggest_verif",
           "enable": "RUSTFLAGS='--cfg lucid_suggest_verif' (set by lsv/common.py when it builds /verif/harness, a path dependency on /repo/rust/core)",
           "baseline_off_cmd": "cd /repo/rust/core && cargo test --workspace --no-fail-fast --offline",
           "source_commits": hook_commits, "add_only": True},
 "engines": [{"name": "tla-tlc-trace-validation", "path": "/verif/spec", "serves_properties": sorted(P),
              "kind_free_text": "explicit TLA+ specification (spec/*.tla) checked with TLC: bounded model checking (MC_*.cfg) and trace validation (TV_*.tla) of ND-JSON traces recorded by /verif/harness from the real crate"}],
 "checks": checks,
 "not_applicable": [{"property_id": k, "reason": v} for k, v in sorted(NA.items())],
 "notes": "exit 0 = held on everything explored; exit 1 + VIOLATION line; exit 2 = tool error. Known findings: known_findings.json.",
}
json.dump(m, open(os.path.join(V, "MANIFEST.json"), "w"), indent=1)
print("checks:", len(checks), "not_applicable:", len(m["not_applicable"]))
