#!/bin/bash
# runs all twenty quick checks on each harmless change (expects exit 0 everywhere)
for d in "$@"; do
  echo "#### $d"
  python3 /verif/tools/seed_check.py $d C01 C02 C03 C04 C05 C06 C07 C08 C09 C10 C11 C12 C13 C14 C15 C16 C17 C18 C19 C20 2>&1 | grep -E "^C[0-9]" | cut -c1-160
done
