#!/usr/bin/env python3
"""Runs every kept seeded change against the quick check of the property it breaks (patch applied to /repo, reverted after).
usage: seed_regress.py [seed-id ...]   -> one line per seed: CAUGHT / missed"""
import json, os, subprocess, sys, time
root = "/verif/seeded"
ids = sys.argv[1:] or sorted(d for d in os.listdir(root) if not d.startswith("_") and os.path.exists(os.path.join(root, d, "patch.diff")))
res = {}
for sid in ids:
    meta = json.load(open(os.path.join(root, sid, "meta.json")))
    prop = meta["breaks_property"].split()[0]
    t0 = time.time()
    p = subprocess.run(["python3", "/verif/tools/seed_check.py", os.path.join(root, sid, "patch.diff"), prop], stdout=subprocess.PIPE, stderr=subprocess.STDOUT, text=True)
    caught = "VIOLATION" in p.stdout
    res[sid] = caught
    print("%-24s %s %s  %.0fs  %s" % (sid, prop, "CAUGHT" if caught else "missed", time.time() - t0, p.stdout.splitlines()[0][:120] if p.stdout else ""), flush=True)
print("caught %d of %d" % (sum(res.values()), len(res)))
