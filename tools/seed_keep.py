#!/usr/bin/env python3
"""usage: seed_keep.py <worktree> <variant> <seed-id> <breaks> <needs> <detected-by ...>
Copies a confirmed seeded change into /verif/seeded/<seed-id>/ (patch.diff, demo.rs, notes.md, meta.json)."""
import sys, os, shutil, json, subprocess
wt, var, sid, breaks, needs = sys.argv[1:6]
detected = sys.argv[6:]
d = os.path.join("/verif/seeded", sid)
os.makedirs(d, exist_ok=True)
shutil.copy(os.path.join(wt, "SEED", var + ".diff"), os.path.join(d, "patch.diff"))
shutil.copy(os.path.join(wt, "SEED", var + "_demo.rs"), os.path.join(d, "demo.rs"))
shutil.copy(os.path.join(wt, "SEED", "notes.md"), os.path.join(d, "notes.md"))
base = subprocess.run(["git", "-C", "/repo", "rev-parse", "HEAD"], stdout=subprocess.PIPE, text=True).stdout.strip()
meta = {
    "seed": sid, "variant_in_notes": var, "breaks_property": breaks, "needs_to_manifest": needs,
    "base_commit": base,
    "confirmed": "tools/seed_confirm.sh in a scratch worktree: demo passes without the change; with it the 219 baseline tests still pass (same 3 known snapshot failures) and the demo fails",
    "ran": ["tools/seed_check.py patch.diff " + " ".join(x.split(":")[0] for x in detected)],
    "detected_by": detected,
    "origin": "independent sub-agent given only the property text and its own scratch worktree",
}
json.dump(meta, open(os.path.join(d, "meta.json"), "w"), indent=1)
print("kept", d)
