#!/usr/bin/env python3
"""usage: seed_check.py <patch.diff> <prop> [<prop> ...] [--tier quick]
Applies the patch to /repo, runs the named checks, restores /repo. Prints one line per check."""
import subprocess, sys, os, re, time
diff = sys.argv[1]
props = [a for a in sys.argv[2:] if not a.startswith("--")]
tier = "thorough" if "--thorough" in sys.argv else "quick"
seed = "1"
for a in sys.argv:
    if a.startswith("--seed="):
        seed = a.split("=")[1]
st = subprocess.run(["git", "-C", "/repo", "status", "--porcelain", "--untracked-files=no"], stdout=subprocess.PIPE, text=True).stdout.strip()
if st:
    print("/repo has local modifications; refusing", st); sys.exit(2)
r = subprocess.run(["git", "-C", "/repo", "apply", diff])
if r.returncode != 0:
    print("patch does not apply"); sys.exit(2)
try:
    for p in props:
        t0 = time.time()
        env = dict(os.environ, LSV_EVIDENCE_DIR="/verif/out/seed_evidence")   # never overwrite the committed evidence
        r = subprocess.run(["python3", "/verif/run.py", p, "--tier", tier, "--seed", seed], cwd="/verif", env=env, stdout=subprocess.PIPE, stderr=subprocess.PIPE, text=True)
        viol = [l for l in r.stdout.splitlines() if l.startswith("VIOLATION")]
        summ = [l for l in r.stderr.splitlines() if l.startswith("[" + p)]
        first = [l for l in r.stderr.splitlines() if l.startswith("first violation")]
        drift = [l for l in r.stderr.splitlines() if l.startswith("DRIFT:")]
        print("%s exit=%d %s %s %s %.0fs" % (p, r.returncode, "VIOLATION" if viol else "-", summ[-1] if summ else r.stderr[-300:], (drift[-1] if drift else ""), time.time() - t0))
        if first:
            print("    " + first[0][:300])
finally:
    subprocess.run(["git", "-C", "/repo", "checkout", "--", "."])
