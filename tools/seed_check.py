#!/usr/bin/env python3
"""usage: seed_check.py <patch.diff> <prop> [<prop> ...] [--thorough] [--seed=N]
Applies the patch to a scratch worktree of /repo (outside /repo and /verif), points the named checks at it
(LSV_REPO_OVERRIDE), removes the worktree afterwards. /repo itself is never modified. Prints one line per check."""
import subprocess, sys, os, re, time
diff = sys.argv[1]
props = [a for a in sys.argv[2:] if not a.startswith("--")]
tier = "thorough" if "--thorough" in sys.argv else "quick"
seed = "1"
for a in sys.argv:
    if a.startswith("--seed="):
        seed = a.split("=")[1]
# the patch is applied to a scratch worktree of /repo's HEAD (never to /repo itself); the checks are pointed at it
import hashlib, shutil
wt = os.environ.get("LSV_SEED_WT", "/tmp/lsv_seedrepo")       # one fixed path: the harness build for it stays incremental
subprocess.run(["git", "-C", "/repo", "worktree", "remove", "--force", wt], stdout=subprocess.DEVNULL, stderr=subprocess.DEVNULL)
r = subprocess.run(["git", "-C", "/repo", "worktree", "add", "-q", "--detach", wt, "HEAD"])
if r.returncode != 0:
    print("cannot create scratch worktree"); sys.exit(2)
try:
    r = subprocess.run(["git", "-C", wt, "apply", os.path.abspath(diff)])
    if r.returncode != 0:
        print("patch does not apply"); sys.exit(2)
    for p in props:
        t0 = time.time()
        env = dict(os.environ, LSV_EVIDENCE_DIR="/verif/out/seed_evidence", LSV_REPO_OVERRIDE=wt)
        r = subprocess.run(["python3", "/verif/run.py", p, "--tier", tier, "--seed", seed], cwd="/verif", env=env, stdout=subprocess.PIPE, stderr=subprocess.PIPE, text=True)
        viol = [l for l in r.stdout.splitlines() if l.startswith("VIOLATION")]
        summ = [l for l in r.stderr.splitlines() if l.startswith("[" + p)]
        first = [l for l in r.stderr.splitlines() if l.startswith("first violation")]
        drift = [l for l in r.stderr.splitlines() if l.startswith("DRIFT:")]
        print("%s exit=%d %s %s %s %.0fs" % (p, r.returncode, "VIOLATION" if viol else "-", summ[-1] if summ else r.stderr[-300:], (drift[-1] if drift else ""), time.time() - t0))
        if first:
            print("    " + first[0][:300])
finally:
    subprocess.run(["git", "-C", "/repo", "worktree", "remove", "--force", wt], stdout=subprocess.DEVNULL, stderr=subprocess.DEVNULL)
    subprocess.run(["git", "-C", "/repo", "worktree", "prune"])
