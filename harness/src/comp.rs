//! Component-level operations (distance, Jaccard, limit-sort, word/text matcher, per-record stage
//! output, access-recorder drain). Everything that needs crate-private items is compiled only with
//! `--cfg lucid_suggest_verif`; the shipping build answers `"unsupported"`.

use std::collections::HashMap;

use serde_json::{json, Map, Value};

use crate::core;
use crate::core::lang::PartOfSpeech;
use crate::core::{Lang, TextOwn, WordShape};
use crate::*;

pub struct Components {
    langs: HashMap<String, Lang>,
    #[cfg(lucid_suggest_verif)]
    dls: HashMap<u64, core::verif::DamerauLevenshtein>,
    #[cfg(lucid_suggest_verif)]
    jacs: HashMap<u64, core::verif::Jaccard<char>>,
}

impl Components {
    pub fn new() -> Self {
        Components {
            langs: HashMap::new(),
            #[cfg(lucid_suggest_verif)]
            dls: HashMap::new(),
            #[cfg(lucid_suggest_verif)]
            jacs: HashMap::new(),
        }
    }

    pub fn reset(&mut self) {
        #[cfg(lucid_suggest_verif)]
        {
            self.dls.clear();
            self.jacs.clear();
        }
    }

    pub fn lang(&mut self, code: &str) -> &Lang {
        if !self.langs.contains_key(code) {
            self.langs.insert(code.to_string(), make_lang(code));
        }
        &self.langs[code]
    }
}

/// A text given literally in a script: {"chars":[..],"classes":[..],"words":[{"s","e","stem","fin","func"}]}
pub fn custom_text(v: &Value) -> TextOwn {
    let chars = chars_of(&get_cps(v, "chars"));
    let source = if v.get("source").is_some() { chars_of(&get_cps(v, "source")) } else { chars.clone() };
    let classes = match v.get("classes") {
        Some(Value::Array(a)) => a.iter().map(|c| class_of_code(c.as_str().unwrap_or("A"))).collect(),
        _ => chars.iter().map(|_| core::lang::CharClass::Any).collect(),
    };
    let mut words = Vec::new();
    if let Some(Value::Array(ws)) = v.get("words") {
        for (i, w) in ws.iter().enumerate() {
            let func = w.get("func").and_then(|x| x.as_bool()).unwrap_or(false);
            words.push(WordShape {
                offset: i,
                slice: (get_u(w, "s") as usize, get_u(w, "e") as usize),
                stem: get_u(w, "stem") as usize,
                pos: if func { Some(PartOfSpeech::Article) } else { None },
                fin: w.get("fin").and_then(|x| x.as_bool()).unwrap_or(true),
            });
        }
    }
    TextOwn { words, source, chars, classes }
}

#[cfg(lucid_suggest_verif)]
fn access_json(log: &core::verif::AccessLog) -> Value {
    let names = ["costs1", "costs2", "chars1", "chars2", "jac1", "jac2", "counts"];
    let mut sites = Vec::new();
    for (i, s) in log.sites.iter().enumerate() {
        if s.n == 0 {
            continue;
        }
        let mut m = Map::new();
        m.insert("site".into(), json!(names[i]));
        m.insert("n".into(), json!(s.n));
        m.insert("max".into(), json!(s.max_ix));
        m.insert("len".into(), json!(s.len_at));
        m.insert("oob".into(), json!(s.oob));
        if let Some((ix, len)) = s.first_oob {
            m.insert("first_oob".into(), json!([ix, len]));
        }
        sites.push(Value::Object(m));
    }
    let mx = &log.matrix;
    let mut m = Map::new();
    m.insert("n".into(), json!(mx.n));
    m.insert("max_row".into(), json!(mx.max_row));
    m.insert("max_col".into(), json!(mx.max_col));
    m.insert("size".into(), json!(mx.size));
    m.insert("raw".into(), json!(mx.raw_len));
    m.insert("oob".into(), json!(mx.oob));
    if let Some((r, c, s)) = mx.first_oob {
        m.insert("first_oob".into(), json!([r, c, s]));
    }
    json!({"sites": sites, "matrix": Value::Object(m)})
}

pub fn drain_access(_ev: &mut Map<String, Value>) {
    #[cfg(lucid_suggest_verif)]
    {
        let log = core::verif::drain();
        if !_ev.contains_key("acc") {
            // (an operation that has already recorded the accesses of the call under test keeps that record)
            _ev.insert("acc".into(), access_json(&log));
        }
    }
}

#[cfg(lucid_suggest_verif)]
fn wm_json(m: &core::verif::WordMatch) -> Value {
    let t10 = (m.typos * 10.0).round();
    let exact = (t10 / 10.0) == m.typos && t10 >= 0.0 && t10 < 1.0e6;
    json!({
        "offset": m.offset, "s": m.slice.0, "e": m.slice.1, "sub": [m.subslice.0, m.subslice.1],
        "t10": if exact { t10 as i64 } else { -1 }, "ct": m.typos.ceil() as i64, "traw": format!("{:?}", m.typos),
        "func": m.func, "fin": m.fin,
    })
}

#[cfg(lucid_suggest_verif)]
fn scores_json(s: &core::verif::Scores) -> Value {
    let v: Vec<isize> = s.iter().cloned().collect();
    if v.iter().all(|&x| x >= -(1 << 31) + 1 && x <= (1 << 31) - 1) {
        json!({"v": v, "big": false})
    } else {
        json!({"v": v.iter().map(|x| format!("{}", x)).collect::<Vec<_>>(), "big": true})
    }
}

/// per-record matcher and scoring output for a search (hook-only), then the access log
pub fn stage_and_access(_sb: &mut StoreBox, _q: &[u32], _op: &Value, _ev: &mut Map<String, Value>) {
    #[cfg(lucid_suggest_verif)]
    {
        if wants(_op, "stage") && !_sb.poisoned {
            let sb = _sb;
            let res = guarded(|| {
                let query = tokenize_query(&string_of(_q), &sb.store.lang);
                let qref = query.to_ref();
                let mut out = Vec::new();
                let mut scored = Vec::new();
                for rec in sb.store.records.iter() {
                    let mut hit = core::verif::Hit::from_record(rec);
                    core::verif::score(&qref, &mut hit);
                    scored.push(hit);
                }
                // the comparator itself on every pair of scored records: -1 first goes before second, 0 tie, 1 after
                let mut cmp = Vec::new();
                if scored.len() <= 8 {
                    for i in 0..scored.len() {
                        for j in 0..scored.len() {
                            if i != j {
                                let o = core::verif::compare_hits(&scored[i], &scored[j]);
                                cmp.push(json!([i, j, match o { std::cmp::Ordering::Less => -1, std::cmp::Ordering::Equal => 0, std::cmp::Ordering::Greater => 1 }]));
                            }
                        }
                    }
                }
                for (rec, hit) in sb.store.records.iter().zip(scored.into_iter()) {
                    let pass = core::verif::hit_matches(&qref, &hit);
                    out.push(json!({
                        "ix": rec.ix, "id": rec.id,
                        "rm": hit.rmatches.iter().map(wm_json).collect::<Vec<_>>(),
                        "qm": hit.qmatches.iter().map(wm_json).collect::<Vec<_>>(),
                        "scores": scores_json(&hit.scores), "pass": pass,
                    }));
                }
                (out, cmp)
            });
            match res {
                Ok((out, cmp)) => {
                    _ev.insert("stage".into(), Value::Array(out));
                    _ev.insert("cmp".into(), Value::Array(cmp));
                }
                Err(msg) => {
                    _ev.insert("stage_panic".into(), json!(msg));
                }
            }
        }
        drain_access(_ev);
    }
}

#[cfg(not(lucid_suggest_verif))]
pub fn op_component(_ctx: &mut Ctx, _op: &Value, ev: &mut Map<String, Value>) {
    ev.insert("unsupported".into(), json!(true));
}

#[cfg(lucid_suggest_verif)]
pub fn op_component(ctx: &mut Ctx, op: &Value, ev: &mut Map<String, Value>) {
    use core::verif::{DamerauLevenshtein, Jaccard, LimitSort};
    let name = get_s(op, "op").to_string();
    let inst = get_u(op, "inst");
    match name.as_str() {
        "dlnew" => {
            ctx.comp.dls.insert(inst, DamerauLevenshtein::new());
        }
        "jacnew" => {
            ctx.comp.jacs.insert(inst, Jaccard::new());
        }
        "dl" => {
            let dl = ctx.comp.dls.entry(inst).or_insert_with(DamerauLevenshtein::new);
            let t1 = custom_text(&json!({"chars": op.get("w1").cloned().unwrap_or(json!([])), "classes": op.get("c1").cloned().unwrap_or(json!([]))}));
            let t2 = custom_text(&json!({"chars": op.get("w2").cloned().unwrap_or(json!([])), "classes": op.get("c2").cloned().unwrap_or(json!([]))}));
            let (n1, n2) = (t1.chars.len(), t2.chars.len());
            let mut t1 = t1;
            let mut t2 = t2;
            t1.words = vec![WordShape::new(n1)];
            t2.words = vec![WordShape::new(n2)];
            let _ = core::verif::drain();
            let res = guarded(|| dl.distance(&t1.view(0), &t2.view(0)));
            match res {
                Ok(d) => {
                    let x2 = d * 2.0;
                    if x2 == x2.round() && x2 >= 0.0 && x2 < 1.0e9 {
                        ev.insert("d_x2".into(), json!(x2 as i64));
                    } else {
                        ev.insert("d_x2".into(), json!(-1));
                        ev.insert("d_raw".into(), json!(format!("{:?}", d)));
                    }
                    let m = dl.dists.borrow();
                    ev.insert("size".into(), json!(m.size()));
                    // prefix cells: (i, j) = prefix lengths; matrix cell (i+1, j+1)
                    let total = (n1 + 1) * (n2 + 1);
                    let want_all = total <= get_u(op, "cells_all_upto").max(1) as usize;
                    let nsample = get_u(op, "cells_sample") as usize;
                    let mut cells = Vec::new();
                    let mut push = |i: usize, j: usize| {
                        let v = m.get(i + 1, j + 1) * 2.0;
                        let iv = if v == v.round() && v >= 0.0 && v < 1.0e9 { v as i64 } else { -1 };
                        cells.push(json!([i, j, iv]));
                    };
                    if want_all {
                        for i in 0..=n1 {
                            for j in 0..=n2 {
                                push(i, j);
                            }
                        }
                    } else if nsample > 0 {
                        let step = std::cmp::max(1, total / nsample);
                        let mut k = (get_u(op, "cells_phase") as usize) % step;
                        while k < total {
                            push(k / (n2 + 1), k % (n2 + 1));
                            k += step;
                        }
                    }
                    ev.insert("cells".into(), Value::Array(cells));
                }
                Err(msg) => {
                    ev.insert("panic".into(), json!(msg));
                    ctx.comp.dls.remove(&inst);
                }
            }
            drain_access(ev);
        }
        "jac" => {
            let jac = ctx.comp.jacs.entry(inst).or_insert_with(Jaccard::new);
            let a = chars_of(&get_cps(op, "a"));
            let b = chars_of(&get_cps(op, "b"));
            let _ = core::verif::drain();
            match guarded(|| jac.similarity(&a, &b)) {
                Ok(sim) => {
                    // reconstruct the reduced fraction p/q (q <= |a|+|b|) that divides to exactly this double
                    let bound = std::cmp::max(1, a.len() + b.len());
                    let mut found = false;
                    for q in 1..=bound {
                        let p = (sim * q as f64).round();
                        if p >= 0.0 && p / (q as f64) == sim {
                            ev.insert("p".into(), json!(p as i64));
                            ev.insert("q".into(), json!(q as i64));
                            found = true;
                            break;
                        }
                    }
                    if !found {
                        ev.insert("p".into(), json!(-1));
                        ev.insert("q".into(), json!(-1));
                    }
                    ev.insert("raw".into(), json!(format!("{:?}", sim)));
                }
                Err(msg) => {
                    ev.insert("panic".into(), json!(msg));
                    ctx.comp.jacs.remove(&inst);
                }
            }
            drain_access(ev);
        }
        "lsort" => {
            // items: [[key, tag], ...] compared by key only (ascending), so that tags expose instability
            let items: Vec<(i64, i64)> = match op.get("items") {
                Some(Value::Array(a)) => a
                    .iter()
                    .map(|x| (x.get(0).and_then(|v| v.as_i64()).unwrap_or(0), x.get(1).and_then(|v| v.as_i64()).unwrap_or(0)))
                    .collect(),
                _ => vec![],
            };
            let limit = get_u(op, "limit") as usize;
            let stable = op.get("stable").and_then(|x| x.as_bool()).unwrap_or(false);
            let res = guarded(|| {
                if stable {
                    items.iter().cloned().limit_sort(limit, |a, b| a.0.cmp(&b.0)).collect::<Vec<_>>()
                } else {
                    items.iter().cloned().limit_sort_unstable(limit, |a, b| a.0.cmp(&b.0)).collect::<Vec<_>>()
                }
            });
            match res {
                Ok(v) => {
                    ev.insert("out".into(), json!(v.iter().map(|(k, t)| json!([k, t])).collect::<Vec<_>>()));
                }
                Err(msg) => {
                    ev.insert("panic".into(), json!(msg));
                }
            }
        }
        "gate" => {
            // the two pre-filters of word_match on literal words: {"r": cps, "q": cps, "qfin": bool}
            let rt = custom_text(&json!({"chars": op.get("r").cloned().unwrap_or(json!([]))}));
            let qt = custom_text(&json!({"chars": op.get("q").cloned().unwrap_or(json!([]))}));
            let (nr, nq) = (rt.chars.len(), qt.chars.len());
            // the character classes the crate itself assigns in the given language (the gates see tokenised words)
            let (mut rt, mut qt) = if op.get("lang").is_some() {
                let code = get_s(op, "lang").to_string();
                ctx.langs_seen.insert(code.clone());
                let lang = ctx.comp.lang(&code);
                (rt.set_char_classes(lang), qt.set_char_classes(lang))
            } else {
                (rt, qt)
            };
            rt.words = vec![WordShape::new(nr)];
            let mut qw = WordShape::new(nq);
            qw.fin = op.get("qfin").and_then(|x| x.as_bool()).unwrap_or(false);
            qt.words = vec![qw];
            let _ = core::verif::drain();
            match guarded(|| (core::verif::length_check(&rt.view(0), &qt.view(0)), core::verif::jaccard_check(&rt.view(0), &qt.view(0)))) {
                Ok((lc, jc)) => {
                    ev.insert("length_ok".into(), json!(lc));
                    ev.insert("jaccard_ok".into(), json!(jc));
                }
                Err(msg) => {
                    ev.insert("panic".into(), json!(msg));
                }
            }
            drain_access(ev);
        }
        "wm" | "tm" => {
            // matcher on literal texts (model words with arbitrary stems / classes), or tokenised by the crate
            let (rt, qt) = if op.get("rt").is_some() {
                (custom_text(&op["rt"]), custom_text(&op["qt"]))
            } else {
                let code = get_s(op, "lang").to_string();
                ctx.langs_seen.insert(code.clone());
                let lang = ctx.comp.lang(&code);
                let r = core::tokenization::tokenize_record(&string_of(&get_cps(op, "r")), lang);
                let q = tokenize_query(&string_of(&get_cps(op, "q")), lang);
                (r, q)
            };
            if op.get("rt").is_none() {
                ev.insert("rtok".into(), tok_json(&rt));
                ev.insert("qtok".into(), tok_json(&qt));
            }
            let _ = core::verif::drain();
            if name == "wm" {
                let ri = get_u(op, "ri") as usize;
                let qi = get_u(op, "qi") as usize;
                let res = guarded(|| {
                    if ri >= rt.words.len() || qi >= qt.words.len() {
                        return None;
                    }
                    core::verif::word_match(&rt.view(ri), &qt.view(qi))
                });
                match res {
                    Ok(None) => {
                        ev.insert("m".into(), json!([]));
                    }
                    Ok(Some((r, q))) => {
                        ev.insert("m".into(), json!([{"r": wm_json(&r), "q": wm_json(&q)}]));
                        drain_access(ev);           // the accesses of word_match itself, before any other instance is used
                        // the distance of the two matched prefixes computed on their own, on an instance that has seen
                        // nothing else (C16: what word_match reports for a prefix pair is that distance)
                        let rw = rt.view(ri);
                        let qw = qt.view(qi);
                        let (rl, ql) = (r.subslice.1 - r.subslice.0, q.subslice.1 - q.subslice.0);
                        if rl <= rw.len() && ql <= qw.len() {
                            let sub = |w: &core::tokenization::WordView, n: usize| -> TextOwn {
                                let chars: Vec<char> = w.chars()[..n].to_vec();
                                let classes = w.classes()[..n].to_vec();
                                TextOwn { words: vec![WordShape::new(n)], source: chars.clone(), chars, classes }
                            };
                            let (t1, t2) = (sub(&qw, ql), sub(&rw, rl));
                            if let Ok(d) = guarded(|| core::verif::DamerauLevenshtein::new().distance(&t1.view(0), &t2.view(0))) {
                                let x2 = d * 2.0;
                                ev.insert("fresh_x2".into(), json!(if x2 == x2.round() && x2 >= 0.0 && x2 < 1.0e9 { x2 as i64 } else { -1 }));
                            }
                        }
                    }
                    Err(msg) => {
                        ev.insert("panic".into(), json!(msg));
                    }
                }
            } else {
                let res = guarded(|| {
                    let rec = core::Record { ix: 0, id: 0, title: rt, rating: get_u(op, "rating") as usize };
                    let mut hit = core::verif::Hit::from_record(&rec);
                    let qref = qt.to_ref();
                    core::verif::score(&qref, &mut hit);
                    let pass = core::verif::hit_matches(&qref, &hit);
                    let l = chars_of(&[0xE000]);
                    let r = chars_of(&[0xE001]);
                    let hl = core::verif::highlight(&hit, (&l, &r));
                    json!({
                        "rm": hit.rmatches.iter().map(wm_json).collect::<Vec<_>>(),
                        "qm": hit.qmatches.iter().map(wm_json).collect::<Vec<_>>(),
                        "scores": scores_json(&hit.scores), "pass": pass,
                        "hl": jcps(&cps_of_str(&hl)),
                    })
                });
                match res {
                    Ok(v) => {
                        ev.insert("res".into(), v);
                    }
                    Err(msg) => {
                        ev.insert("panic".into(), json!(msg));
                    }
                }
            }
            drain_access(ev);
        }
        _ => {}
    }
}
