//! lsv-harness: replays operation scripts (ND-JSON) against the real lucid-suggest-core crate and
//! records what the code did as an ND-JSON trace. It never judges: every comparison is made by TLC
//! on the trace (see /verif/DESIGN.md, 3.3).
//!
//!   lsv-harness replay <script.ndjson> <trace.ndjson>
//!
//! Strings travel as arrays of Unicode scalar values. There is no JSON null in a trace.

use std::collections::{BTreeSet, HashMap};
use std::fs::File;
use std::io::{BufRead, BufReader, BufWriter, Write};
use std::panic::{self, AssertUnwindSafe};
use std::sync::atomic::{AtomicU64, Ordering};
use std::sync::Arc;

use serde_json::{json, Map, Value};

use lucid_suggest_core as core;
use core::lang::{CharClass, CharPattern, PartOfSpeech};
use core::tokenization::tokenize_record;
use core::{tokenize_query, Lang, Record, Store, TextOwn, Word};

mod comp;

pub const LANGS: &[&str] = &["none", "de", "en", "es", "fr", "pt", "ru"];

pub fn make_lang(code: &str) -> Lang {
    match code {
        "de" => core::lang_german(),
        "en" => core::lang_english(),
        "es" => core::lang_spanish(),
        "fr" => core::lang_french(),
        "pt" => core::lang_portuguese(),
        "ru" => core::lang_russian(),
        "basic" => core::lang::lang_basic(),
        _ => Lang::new(),
    }
}

// ------------------------------------------------------------------------------------------------
// JSON helpers

pub fn cps_of_str(s: &str) -> Vec<u32> {
    s.chars().map(|c| c as u32).collect()
}

pub fn cps_of_chars(s: &[char]) -> Vec<u32> {
    s.iter().map(|&c| c as u32).collect()
}

pub fn jcps(v: &[u32]) -> Value {
    Value::Array(v.iter().map(|&c| json!(c)).collect())
}

pub fn get_cps(v: &Value, key: &str) -> Vec<u32> {
    match v.get(key) {
        Some(Value::Array(a)) => a.iter().map(|x| x.as_u64().unwrap_or(0xFFFD) as u32).collect(),
        Some(Value::String(s)) => cps_of_str(s),
        _ => Vec::new(),
    }
}

pub fn string_of(cps: &[u32]) -> String {
    cps.iter().map(|&c| std::char::from_u32(c).unwrap_or('\u{FFFD}')).collect()
}

pub fn chars_of(cps: &[u32]) -> Vec<char> {
    cps.iter().map(|&c| std::char::from_u32(c).unwrap_or('\u{FFFD}')).collect()
}

pub fn get_u(v: &Value, key: &str) -> u64 {
    v.get(key).and_then(|x| x.as_u64()).unwrap_or(0)
}

pub fn get_s<'a>(v: &'a Value, key: &str) -> &'a str {
    v.get(key).and_then(|x| x.as_str()).unwrap_or("")
}

pub fn wants(v: &Value, what: &str) -> bool {
    match v.get("want") {
        Some(Value::Array(a)) => a.iter().any(|x| x.as_str() == Some(what)),
        _ => false,
    }
}

pub fn class_code(c: &CharClass) -> &'static str {
    match c {
        CharClass::Any => "A",
        CharClass::Control => "Ctl",
        CharClass::Whitespace => "W",
        CharClass::Punctuation => "P",
        CharClass::NotAlpha => "N",
        CharClass::NotAlphaNum => "NN",
        CharClass::Consonant => "C",
        CharClass::Vowel => "V",
    }
}

pub fn class_of_code(s: &str) -> CharClass {
    match s {
        "C" => CharClass::Consonant,
        "V" => CharClass::Vowel,
        "N" => CharClass::NotAlpha,
        "Ctl" => CharClass::Control,
        "W" => CharClass::Whitespace,
        "P" => CharClass::Punctuation,
        "NN" => CharClass::NotAlphaNum,
        _ => CharClass::Any,
    }
}

pub fn pos_code(p: &Option<PartOfSpeech>) -> String {
    match p {
        None => String::new(),
        Some(p) => format!("{:?}", p),
    }
}

pub fn tok_json(t: &TextOwn) -> Value {
    let words: Vec<Value> = t
        .words
        .iter()
        .map(|w| {
            json!({
                "offset": w.offset, "s": w.slice.0, "e": w.slice.1, "stem": w.stem,
                "pos": pos_code(&w.pos), "func": w.is_function(), "fin": w.fin,
            })
        })
        .collect();
    json!({
        "source": jcps(&cps_of_chars(&t.source)),
        "chars": jcps(&cps_of_chars(&t.chars)),
        "classes": t.classes.iter().map(|c| json!(class_code(c))).collect::<Vec<_>>(),
        "words": words,
    })
}

pub fn hits_json(hits: &[core::SearchResult]) -> Value {
    Value::Array(
        hits.iter()
            .map(|h| json!({"id": h.id, "title": jcps(&cps_of_str(&h.title))}))
            .collect(),
    )
}

pub fn panic_message(e: Box<dyn std::any::Any + Send>) -> String {
    if let Some(s) = e.downcast_ref::<&str>() {
        s.to_string()
    } else if let Some(s) = e.downcast_ref::<String>() {
        s.clone()
    } else {
        "non-string panic payload".to_string()
    }
}

// ------------------------------------------------------------------------------------------------
// stores

pub struct StoreBox {
    pub lang: String,
    pub store: Store,
    /// the harness' own belief of what the store holds (checked by TLC against the spec's state)
    pub shadow: Vec<(usize, Vec<u32>, usize)>,
    pub limit: usize,
    pub left: Vec<u32>,
    pub right: Vec<u32>,
    pub poisoned: bool,
}

impl StoreBox {
    pub fn new(lang: &str) -> Self {
        let mut store = Store::new();
        store.lang = make_lang(lang);
        StoreBox {
            lang: lang.to_string(),
            store,
            shadow: Vec::new(),
            limit: core::DEFAULT_LIMIT,
            left: vec!['[' as u32],
            right: vec![']' as u32],
            poisoned: false,
        }
    }

    pub fn proj(&self) -> Value {
        let (cache, cache_limit): (Vec<Value>, Vec<Value>) = match &*self.store.top_ixs.borrow() {
            None => (vec![], vec![]),
            Some((limit, ixs)) => (vec![Value::Array(ixs.iter().map(|&i| json!(i)).collect())], vec![json!(limit)]),
        };
        let mut m = Map::new();
        m.insert("n".into(), json!(self.store.records.len()));
        m.insert("next_ix".into(), json!(self.store.next_ix));
        m.insert("limit".into(), json!(self.store.limit));
        m.insert("l".into(), jcps(&cps_of_chars(&self.store.dividers.0)));
        m.insert("r".into(), jcps(&cps_of_chars(&self.store.dividers.1)));
        m.insert("cache".into(), Value::Array(cache));
        m.insert("cache_limit".into(), Value::Array(cache_limit));
        #[cfg(lucid_suggest_verif)]
        {
            m.insert("index_len".into(), json!(self.store.index.borrow().verif_len()));
        }
        Value::Object(m)
    }
}

pub fn fresh_store(lang: &str, recs: &[(usize, Vec<u32>, usize)], limit: usize, l: &[u32], r: &[u32]) -> Store {
    let mut store = Store::new();
    store.lang = make_lang(lang);
    store.limit = limit;
    store.highlight_with((&string_of(l), &string_of(r)));
    for (id, title, rating) in recs {
        let rec = Record::new(*id, &string_of(title), *rating, &store.lang);
        store.add(rec);
    }
    store
}

pub fn do_search(store: &Store, q: &[u32]) -> Vec<core::SearchResult> {
    let query = tokenize_query(&string_of(q), &store.lang);
    let query = query.to_ref();
    store.search(&query)
}

pub fn guarded<T, F: FnOnce() -> T>(f: F) -> Result<T, String> {
    panic::catch_unwind(AssertUnwindSafe(f)).map_err(panic_message)
}

// ------------------------------------------------------------------------------------------------

pub struct Ctx {
    pub stores: HashMap<u64, StoreBox>,
    pub comp: comp::Components,
    pub chars: BTreeSet<u32>,
    pub langs_seen: BTreeSet<String>,
    pub reg_live: BTreeSet<u64>,
    pub reg_lang: HashMap<u64, String>,
}

impl Ctx {
    fn note_chars(&mut self, v: &Value) {
        // every integer array found under a key that carries text is remembered for the chartable
        match v {
            Value::Object(m) => {
                for (k, x) in m {
                    match k.as_str() {
                        "title" | "q" | "l" | "r" | "text" | "source" | "chars" | "w1" | "w2" | "a" | "b" => {
                            if let Value::Array(a) = x {
                                for c in a {
                                    if let Some(c) = c.as_u64() {
                                        self.chars.insert(c as u32);
                                    }
                                }
                            }
                        }
                        _ => self.note_chars(x),
                    }
                }
            }
            Value::Array(a) => {
                for x in a {
                    self.note_chars(x);
                }
            }
            _ => {}
        }
    }
}

/// scripts may spell text as JSON strings; traces always carry arrays of code points
fn text_fields_to_cps(v: &mut Value) {
    match v {
        Value::Object(m) => {
            for (k, x) in m.iter_mut() {
                match k.as_str() {
                    "title" | "q" | "l" | "r" | "text" | "w1" | "w2" | "a" | "b" => {
                        if let Value::String(s) = x {
                            *x = jcps(&cps_of_str(s));
                        } else {
                            text_fields_to_cps(x);
                        }
                    }
                    _ => text_fields_to_cps(x),
                }
            }
        }
        Value::Array(a) => {
            for x in a.iter_mut() {
                text_fields_to_cps(x);
            }
        }
        _ => {}
    }
}

fn op_store(ctx: &mut Ctx, op: &Value, ev: &mut Map<String, Value>) {
    let name = get_s(op, "op").to_string();
    let sid = get_u(op, "sid");
    if name == "new" {
        let lang = get_s(op, "lang").to_string();
        ctx.langs_seen.insert(lang.clone());
        ctx.stores.insert(sid, StoreBox::new(&lang));
        return;
    }
    if name == "drop" {
        ctx.stores.remove(&sid);
        return;
    }
    let sb = match ctx.stores.get_mut(&sid) {
        Some(sb) => sb,
        None => {
            ev.insert("skipped".into(), json!("no such store"));
            return;
        }
    };
    if sb.poisoned {
        ev.insert("skipped".into(), json!("store poisoned by an earlier panic"));
        return;
    }
    match name.as_str() {
        "add" => {
            let id = get_u(op, "id") as usize;
            let title = get_cps(op, "title");
            let rating = get_u(op, "rating") as usize;
            let res = guarded(|| {
                let rec = Record::new(id, &string_of(&title), rating, &sb.store.lang);
                sb.store.add(rec);
            });
            match res {
                Ok(()) => {
                    sb.shadow.push((id, title, rating));
                    if let Some(rec) = sb.store.records.last() {
                        ev.insert("tok".into(), tok_json(&rec.title));
                        ev.insert("ix".into(), json!(rec.ix));
                    }
                }
                Err(msg) => {
                    ev.insert("panic".into(), json!(msg));
                    sb.poisoned = true;
                }
            }
        }
        "clear" => {
            let res = guarded(|| sb.store.clear());
            match res {
                Ok(()) => sb.shadow.clear(),
                Err(msg) => {
                    ev.insert("panic".into(), json!(msg));
                    sb.poisoned = true;
                }
            }
        }
        "limit" => {
            let limit = get_u(op, "limit") as usize;
            sb.store.limit = limit;
            sb.limit = limit;
        }
        "markers" => {
            let l = get_cps(op, "l");
            let r = get_cps(op, "r");
            sb.store.highlight_with((&string_of(&l), &string_of(&r)));
            sb.left = l;
            sb.right = r;
        }
        "search" => {
            let q = get_cps(op, "q");
            if wants(op, "qtok") {
                match guarded(|| tokenize_query(&string_of(&q), &sb.store.lang)) {
                    Ok(t) => {
                        ev.insert("qtok".into(), tok_json(&t));
                    }
                    Err(msg) => {
                        ev.insert("panic".into(), json!(format!("tokenize_query: {}", msg)));
                    }
                }
            }
            // `times`: the same search made that many times in a row before the recorded one (a long-lived store: counters,
            // stamps and memo tables of the store and of the thread have seen tens of thousands of calls)
            let times = std::cmp::max(1, get_u(op, "times")) as usize;
            for _ in 1..times {
                if let Err(msg) = guarded(|| do_search(&sb.store, &q)) {
                    ev.insert("panic".into(), json!(msg));
                    sb.poisoned = true;
                    break;
                }
            }
            let reps = if sb.poisoned { 0 } else { std::cmp::max(1, get_u(op, "repeat")) as usize };
            let mut all = Vec::new();
            for _ in 0..reps {
                match guarded(|| do_search(&sb.store, &q)) {
                    Ok(hits) => all.push(hits_json(&hits)),
                    Err(msg) => {
                        ev.insert("panic".into(), json!(msg));
                        sb.poisoned = true;
                        break;
                    }
                }
            }
            if !sb.poisoned {
                ev.insert("hits".into(), all[0].clone());
                if reps > 1 {
                    ev.insert("again".into(), Value::Array(all[1..].to_vec()));
                }
            }
            // the same query on a store built from scratch out of what the harness believes is held
            if wants(op, "fresh") {
                let args = json!({
                    "lang": sb.lang,
                    "records": sb.shadow.iter().map(|(id, t, r)| json!({"id": id, "title": jcps(t), "rating": r})).collect::<Vec<_>>(),
                    "limit": sb.limit, "l": jcps(&sb.left), "r": jcps(&sb.right),
                });
                ev.insert("fresh_args".into(), args);
                let lang = sb.lang.clone();
                let (shadow, limit, l, r) = (sb.shadow.clone(), sb.limit, sb.left.clone(), sb.right.clone());
                // on a thread of its own: the crate's thread-local scratch state (distance matrix, Jaccard buffers,
                // match vectors) is brand new there, so the twin shares nothing with the store under test
                let q2 = q.clone();
                let res = std::thread::spawn(move || {
                    panic::catch_unwind(AssertUnwindSafe(|| {
                        let st = fresh_store(&lang, &shadow, limit, &l, &r);
                        hits_json(&do_search(&st, &q2))
                    }))
                    .map_err(panic_message)
                })
                .join()
                .unwrap_or_else(|_| Err("fresh-store thread died".to_string()));
                match res {
                    Ok(hits) => {
                        ev.insert("fresh_hits".into(), hits);
                    }
                    Err(msg) => {
                        ev.insert("fresh_panic".into(), json!(msg));
                    }
                }
            }
            relational(sb, &q, op, ev);
            // the same search with other markers (restored afterwards)
            if let Some(Value::Array(alts)) = op.get("alt") {
                let mut out = Vec::new();
                if !sb.poisoned {
                    for alt in alts {
                        let l = get_cps(alt, "l");
                        let r = get_cps(alt, "r");
                        sb.store.highlight_with((&string_of(&l), &string_of(&r)));
                        match guarded(|| do_search(&sb.store, &q)) {
                            Ok(hits) => out.push(json!({"l": jcps(&l), "r": jcps(&r), "hits": hits_json(&hits)})),
                            Err(msg) => out.push(json!({"l": jcps(&l), "r": jcps(&r), "hits": [], "panic": msg})),
                        }
                    }
                    let (l, r) = (sb.left.clone(), sb.right.clone());
                    sb.store.highlight_with((&string_of(&l), &string_of(&r)));
                }
                ev.insert("alt".into(), Value::Array(out));
            }
            comp::stage_and_access(sb, &q, op, ev);
        }
        "prepare" => {
            let q = get_cps(op, "q");
            let size = get_u(op, "size") as usize;
            // `times`: the same call made that many times in a row (a long-lived index); the last answer is recorded
            let times = std::cmp::max(1, get_u(op, "times")) as usize;
            let res = guarded(|| {
                let query = tokenize_query(&string_of(&q), &sb.store.lang);
                let mut ixs = sb.store.index.borrow_mut().prepare(&query.to_ref(), size);
                for _ in 1..times {
                    ixs = sb.store.index.borrow_mut().prepare(&query.to_ref(), size);
                }
                (query, ixs)
            });
            match res {
                Ok((query, ixs)) => {
                    ev.insert("qtok".into(), tok_json(&query));
                    ev.insert("ixs".into(), json!(ixs));
                }
                Err(msg) => {
                    ev.insert("panic".into(), json!(msg));
                    sb.poisoned = true;
                }
            }
            comp::drain_access(ev);
        }
        _ => {
            ev.insert("skipped".into(), json!("unknown store op"));
        }
    }
    if let Some(sb) = ctx.stores.get(&sid) {
        if !sb.poisoned {
            ev.insert("proj".into(), sb.proj());
        }
    }
}

/// the same query on related stores built from the harness' shadow of this store: every record alone,
/// an unlimited limit, pairs of hits in both insertion orders, permuted insertion orders
fn relational(sb: &StoreBox, q: &[u32], op: &Value, ev: &mut Map<String, Value>) {
    let lang = sb.lang.clone();
    let (limit, l, r) = (sb.limit, sb.left.clone(), sb.right.clone());
    // every related store is built and searched on a thread of its own, like the fresh twin of C10: the crate keeps
    // scratch state in thread-locals (distance matrix, Jaccard buffers), and a store that inherits the state the store
    // under test has just left behind is not an independent witness of what the records alone determine
    let run = |recs: &[(usize, Vec<u32>, usize)], limit: usize| -> Value {
        let (lang2, recs2, l2, r2, q2) = (lang.clone(), recs.to_vec(), l.clone(), r.clone(), q.to_vec());
        let res = std::thread::spawn(move || {
            panic::catch_unwind(AssertUnwindSafe(|| {
                let st = fresh_store(&lang2, &recs2, limit, &l2, &r2);
                hits_json(&do_search(&st, &q2))
            }))
            .map_err(panic_message)
        })
        .join()
        .unwrap_or_else(|_| Err("related-store thread died".to_string()));
        match res {
            Ok(h) => h,
            Err(msg) => json!([{"id": 0, "title": [], "panic": msg}]),
        }
    };
    if wants(op, "singles") {
        let out: Vec<Value> = sb.shadow.iter().map(|rec| json!({"id": rec.0, "hits": run(&[rec.clone()], limit)})).collect();
        ev.insert("singles".into(), Value::Array(out));
    }
    if wants(op, "singles_some") {
        // a sample of the records (positions named by the case), each alone in a store of its own: for stores too large to
        // ask every record
        if let Some(Value::Array(pos)) = op.get("single_of") {
            let out: Vec<Value> = pos
                .iter()
                .filter_map(|p| p.as_u64())
                .filter_map(|p| sb.shadow.get(p as usize))
                .map(|rec| json!({"id": rec.0, "hits": run(&[rec.clone()], limit)}))
                .collect();
            ev.insert("singles_some".into(), Value::Array(out));
        }
    }
    if wants(op, "unlimited") {
        ev.insert("unlimited".into(), run(&sb.shadow, sb.shadow.len() + 10));
    }
    if wants(op, "pairs") {
        if let Some(Value::Array(hits)) = ev.get("hits").cloned() {
            let ids: Vec<usize> = hits.iter().map(|h| get_u(h, "id") as usize).collect();
            let find = |id: usize| sb.shadow.iter().find(|rec| rec.0 == id).cloned();
            let maxp = std::cmp::max(1, get_u(op, "max_pairs")) as usize;
            let mut out = Vec::new();
            'outer: for gap in 1..ids.len() {
                for i in 0..ids.len() - gap {
                    if out.len() >= maxp {
                        break 'outer;
                    }
                    if let (Some(a), Some(b)) = (find(ids[i]), find(ids[i + gap])) {
                        out.push(json!({"a": a.0, "b": b.0, "limit": limit,
                                        "ab": run(&[a.clone(), b.clone()], limit), "ba": run(&[b, a], limit)}));
                    }
                }
            }
            ev.insert("pairs".into(), Value::Array(out));
        }
    }
    if let Some(Value::Array(perms)) = op.get("perms") {
        let mut out = Vec::new();
        for p in perms {
            if let Value::Array(order) = p {
                let recs: Vec<(usize, Vec<u32>, usize)> =
                    order.iter().filter_map(|i| sb.shadow.get(i.as_u64().unwrap_or(1 << 40) as usize).cloned()).collect();
                out.push(json!({"order": recs.iter().map(|rec| rec.0).collect::<Vec<_>>(), "hits": run(&recs, limit)}));
            }
        }
        ev.insert("perms".into(), Value::Array(out));
    }
}

fn op_tok(ctx: &mut Ctx, op: &Value, ev: &mut Map<String, Value>) {
    let lang_code = get_s(op, "lang").to_string();
    ctx.langs_seen.insert(lang_code.clone());
    let lang = ctx.comp.lang(&lang_code);
    let text = string_of(&get_cps(op, "text"));
    let kind = get_s(op, "kind");
    let res = guarded(|| if kind == "q" { tokenize_query(&text, lang) } else { tokenize_record(&text, lang) });
    match res {
        Ok(t) => {
            ev.insert("tok".into(), tok_json(&t));
        }
        Err(msg) => {
            ev.insert("panic".into(), json!(msg));
        }
    }
}

/// Store ids are `usize`; the traces keep them small (TLC's integers are 32 bit). Logged ids 100..199 stand for the real
/// ids (logged - 100) + 2^32, i.e. ids that differ from 0..99 only above bit 31 (on a 64-bit host).
fn real_id(logged: usize) -> usize {
    if (100..200).contains(&logged) && std::mem::size_of::<usize>() >= 8 {
        (logged - 100) + (1usize << 32)
    } else {
        logged
    }
}

// registry (top-level API, thread-local maps)
fn op_registry(ctx: &mut Ctx, op: &Value, ev: &mut Map<String, Value>) {
    let name = get_s(op, "op").to_string();
    let logged = get_u(op, "id") as usize;
    let id = real_id(logged);
    let res = guarded(|| match name.as_str() {
        "r_create" => core::create_store(id, make_lang(get_s(op, "lang"))),
        "r_destroy" => core::destroy_store(id),
        "r_add" => core::add_record(id, get_u(op, "rid") as usize, &string_of(&get_cps(op, "title")), get_u(op, "rating") as usize),
        "r_limit" => core::set_limit(id, get_u(op, "limit") as usize),
        "r_markers" => core::highlight_with(id, (&string_of(&get_cps(op, "l")), &string_of(&get_cps(op, "r")))),
        "r_search" => core::run_search(id, &string_of(&get_cps(op, "q"))),
        "r_clear" => core::using_store(id, |s| s.clear()),
        _ => {}
    });
    match res {
        Ok(()) => {
            if name == "r_create" {
                ctx.reg_live.insert(logged as u64);
                ctx.reg_lang.insert(logged as u64, get_s(op, "lang").to_string());
                ctx.langs_seen.insert(get_s(op, "lang").to_string());
            }
            if name == "r_destroy" {
                ctx.reg_live.remove(&(logged as u64));
            }
        }
        Err(msg) => {
            ev.insert("panic".into(), json!(msg));
        }
    }
    // read every live buffer after every call
    let mut bufs = Vec::new();
    for &live in ctx.reg_live.iter() {
        let r = guarded(|| core::using_results(real_id(live as usize), |buf| hits_json(buf)));
        match r {
            Ok(h) => bufs.push(json!({"id": live, "hits": h})),
            Err(msg) => bufs.push(json!({"id": live, "hits": [], "panic": msg})),
        }
    }
    ev.insert("bufs".into(), Value::Array(bufs));
    if name == "r_search" {
        if let Some(lang) = ctx.reg_lang.get(&(logged as u64)) {
            let l = ctx.comp.lang(lang);
            if let Ok(t) = guarded(|| tokenize_query(&string_of(&get_cps(op, "q")), l)) {
                ev.insert("qtok".into(), tok_json(&t));
            }
        }
    }
}

fn registry_reset(ctx: &mut Ctx) {
    let live: Vec<u64> = ctx.reg_live.iter().cloned().collect();
    for id in live {
        let _ = guarded(|| core::destroy_store(real_id(id as usize)));
    }
    ctx.reg_live.clear();
    ctx.reg_lang.clear();
}

fn chartable(ctx: &mut Ctx) -> Value {
    // close the set under lower-casing and under the languages' single-character reductions, so that every
    // character the tokeniser can produce on the way (also before lower-casing) is described
    let none = Lang::new();
    let langs: Vec<(String, Lang)> = ctx.langs_seen.iter().map(|c| (c.clone(), make_lang(c))).collect();
    let mut todo: Vec<u32> = ctx.chars.iter().cloned().collect();
    while let Some(c) = todo.pop() {
        if let Some(ch) = std::char::from_u32(c) {
            let mut produced: Vec<char> = ch.to_lowercase().collect();
            for (_, lang) in langs.iter() {
                if let Some((_, reduced)) = lang.unicode_reduce(&[ch]) {
                    produced.extend(reduced);
                }
            }
            for x in produced {
                if ctx.chars.insert(x as u32) {
                    todo.push(x as u32);
                }
            }
        }
    }
    let mut rows = Vec::new();
    for &c in ctx.chars.iter() {
        let ch = match std::char::from_u32(c) {
            Some(ch) => ch,
            None => continue,
        };
        let lower: Vec<u32> = ch.to_lowercase().map(|x| x as u32).collect();
        let upper: Vec<u32> = ch.to_uppercase().map(|x| x as u32).collect();
        let mut cls = Map::new();
        for (code, lang) in langs.iter() {
            let k = match lang.get_char_class(ch) {
                Some(k) => class_code(&k).to_string(),
                None => String::new(),
            };
            cls.insert(code.clone(), json!(k));
        }
        rows.push(json!({
            "c": c,
            "alnum": ch.is_alphanumeric(),
            "alpha": ch.is_alphabetic(),
            "num": ch.is_numeric(),
            "white": CharClass::Whitespace.matches(ch, &none).unwrap_or(false),
            "ctrl": CharClass::Control.matches(ch, &none).unwrap_or(false),
            "punct": CharClass::Punctuation.matches(ch, &none).unwrap_or(false),
            "upper": ch.is_uppercase(),
            "lowercase": ch.is_lowercase(),
            "lower": lower,
            "upperm": upper,
            "cls": Value::Object(cls),
        }));
    }
    json!({"op": "chartable", "rows": rows})
}

fn main() {
    let args: Vec<String> = std::env::args().collect();
    if args.len() < 4 || args[1] != "replay" {
        eprintln!("usage: lsv-harness replay <script.ndjson> <trace.ndjson>");
        std::process::exit(2);
    }
    // panics are data: keep them off stderr - except the one kind that cannot be caught: the standard library's debug
    // precondition on an unchecked access aborts the process, and its message is the only record of why
    panic::set_hook(Box::new(|info| {
        let msg = info.to_string();
        if msg.contains("unsafe precondition") {
            eprintln!("{}", msg);
        }
    }));
    let input = BufReader::new(File::open(&args[2]).expect("open script"));
    let mut out = BufWriter::new(File::create(&args[3]).expect("create trace"));

    // watchdog: a call that does not come back within the budget is a hang; it is written to the
    // trace as such and the process ends (exit code 3 tells run.py the trace is cut short)
    let tick = Arc::new(AtomicU64::new(0));
    let budget_ms: u64 = std::env::var("LSV_OP_BUDGET_MS").ok().and_then(|s| s.parse().ok()).unwrap_or(20000);
    {
        let tick = tick.clone();
        let path = format!("{}.hang", &args[3]);
        std::thread::spawn(move || {
            let mut last = 0u64;
            let mut since = std::time::Instant::now();
            loop {
                std::thread::sleep(std::time::Duration::from_millis(200));
                let now = tick.load(Ordering::Relaxed);
                if now != last {
                    last = now;
                    since = std::time::Instant::now();
                } else if since.elapsed().as_millis() as u64 > budget_ms && now != u64::MAX {
                    let _ = std::fs::write(&path, format!("{}", now));
                    std::process::exit(3);
                }
            }
        });
    }

    let build = if cfg!(lucid_suggest_verif) { "checked" } else { "shipping" };
    writeln!(out, "{}", json!({"op": "header", "build": build, "debug_assertions": cfg!(debug_assertions)})).unwrap();

    // every case runs on a thread of its own: the crate keeps scratch state in thread-locals (distance matrix, Jaccard
    // buffers, match vectors, the top-level registry), and a case is meant to start from a process that has done nothing
    let mut ops: Vec<Value> = Vec::new();
    for line in input.lines() {
        let line = line.expect("read script");
        if line.trim().is_empty() {
            continue;
        }
        ops.push(serde_json::from_str(&line).expect("script line is JSON"));
    }
    let mut cases: Vec<Vec<Value>> = Vec::new();
    for op in ops {
        if get_s(&op, "op") == "case" || cases.is_empty() {
            cases.push(Vec::new());
        }
        cases.last_mut().unwrap().push(op);
    }
    let mut all_chars: BTreeSet<u32> = BTreeSet::new();
    let mut all_langs: BTreeSet<String> = BTreeSet::new();
    let mut n: u64 = 0;
    for case_ops in cases {
        let base = n;
        n += case_ops.len() as u64;
        let tick2 = tick.clone();
        let handle = std::thread::Builder::new().stack_size(16 << 20).spawn(move || {
            let mut ctx = Ctx {
                stores: HashMap::new(),
                comp: comp::Components::new(),
                chars: BTreeSet::new(),
                langs_seen: BTreeSet::new(),
                reg_live: BTreeSet::new(),
                reg_lang: HashMap::new(),
            };
            let mut events = Vec::new();
            for (k, op) in case_ops.iter().enumerate() {
                tick2.store(base + k as u64 + 1, Ordering::Relaxed);
                let mut ev: Map<String, Value> = match op {
                    Value::Object(m) => m.clone(),
                    _ => Map::new(),
                };
                ev.remove("want");
                let name = get_s(op, "op").to_string();
                match name.as_str() {
                    "case" => {}
                    "new" | "drop" | "add" | "clear" | "limit" | "markers" | "search" | "prepare" => op_store(&mut ctx, op, &mut ev),
                    "tok" => op_tok(&mut ctx, op, &mut ev),
                    "r_create" | "r_destroy" | "r_add" | "r_limit" | "r_markers" | "r_search" | "r_clear" => op_registry(&mut ctx, op, &mut ev),
                    "dl" | "jac" | "lsort" | "dlnew" | "jacnew" | "wm" | "tm" | "gate" => comp::op_component(&mut ctx, op, &mut ev),
                    _ => {
                        ev.insert("skipped".into(), json!("unknown op"));
                    }
                }
                let mut ev = Value::Object(ev);
                text_fields_to_cps(&mut ev);
                ctx.note_chars(&ev);
                events.push(ev);
            }
            registry_reset(&mut ctx);
            (events, ctx.chars, ctx.langs_seen)
        }).expect("spawn case thread");
        match handle.join() {
            Ok((events, chars, langs)) => {
                for ev in events {
                    writeln!(out, "{}", ev).unwrap();
                }
                all_chars.extend(chars);
                all_langs.extend(langs);
            }
            Err(_) => {
                // the case's thread died outside catch_unwind (should not happen): the trace ends here
                out.flush().unwrap();
                std::process::exit(4);
            }
        }
    }
    let mut ctx = Ctx {
        stores: HashMap::new(),
        comp: comp::Components::new(),
        chars: all_chars,
        langs_seen: all_langs,
        reg_live: BTreeSet::new(),
        reg_lang: HashMap::new(),
    };
    tick.store(u64::MAX, Ordering::Relaxed);
    let ct = chartable(&mut ctx);
    writeln!(out, "{}", ct).unwrap();
    out.flush().unwrap();
}
