#!/usr/bin/env python3
"""Entry point of every registered check.

  python3 run.py <C01..C20> --tier quick|thorough     one property (exit 0 held / 1 VIOLATION / 2 tool error)
  python3 run.py replay <replay.json>                 re-run a recorded violation
  python3 run.py setup                                build the harness, parse every specification
  python3 run.py binding [cases]                      the wasm glue and index.js against spec/Binding.tla (not a listed property)

See DESIGN.md 3.4 for the verdict policy: a VIOLATION of property P is reported iff the predicate of P in
spec/Props*.tla is false on something the real code did (evaluated by TLC on the recorded trace), or, for the
design-level legs, TLC finds a counterexample to P's invariant on the specification."""
import argparse, json, os, sys, time, traceback

sys.path.insert(0, os.path.dirname(os.path.abspath(__file__)))
from lsv.common import *          # noqa
from lsv import plans


def main():
    ap = argparse.ArgumentParser()
    ap.add_argument("what")
    ap.add_argument("arg", nargs="?")
    ap.add_argument("--tier", default=os.environ.get("VERIF_TIER", "quick"))
    ap.add_argument("--seed", type=int, default=int(os.environ.get("VERIF_SEED", "1")))
    a = ap.parse_args()
    try:
        if a.what == "setup":
            return plans.setup()
        if a.what == "replay":
            return plans.replay_file(a.arg)
        if a.what == "selftest":
            return plans.selftest()
        if a.what == "binding":
            from lsv import binding
            return binding.run(["--seed=%d" % a.seed] + (["--cases=%s" % a.arg] if a.arg else []))
        return plans.run_property(a.what, a.tier, a.seed)
    except ToolError as e:
        log("TOOL ERROR: %s" % e)
        return 2
    except Exception:
        traceback.print_exc()
        return 2


if __name__ == "__main__":
    sys.exit(main())
